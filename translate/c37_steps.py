"""Regenerate CffiVerif/Generated/DlCloseSteps.lean from the working tree: the ORDER of the steps of
`ffi.dlclose(lib)` in both ABI-mode implementations, whether the GIL is released around the C-level
`dlclose()`, and whether every accessor tests for a closed library before touching it.

Out-of-line (src/c/cdlopen.c, src/c/lib_obj.c):
  * `ffi_dlclose`: `libhandle = lib->l_libhandle;` then `if (libhandle != NULL) { ... }` whose statements must each
    be one of  `lib->l_libhandle = NULL;` (nullHandle), `PyDict_Clear(lib->l_dict);` (clearCache),
    `if (cdlopen_close(lib->l_libname, libhandle) < 0) return NULL;` (sysDlclose) -- in the order found;
  * `cdlopen_close` must call `dlclose(libhandle)`; GIL released iff `Py_BEGIN_ALLOW_THREADS` occurs in
    `cdlopen_close` or `ffi_dlclose`;
  * `cdlopen_fetch`: `if (libhandle == NULL) { ...; return NULL; }` before the first `dlsym(`;
  * lib_obj.c reaches the library only through `cdlopen_fetch` (no `dlsym(` of its own).
In-line (src/c/_cffi_backend.c, src/cffi/api.py):
  * `dl_close_lib`: `if (dlobj->dl_handle != NULL) { ... }` with statements `dlclose(dlobj->dl_handle);` (sysDlclose),
    `dlobj->dl_handle = NULL;` (nullHandle), in the order found; GIL released iff `Py_BEGIN_ALLOW_THREADS` occurs;
  * `dl_check_closed` tests `dlobj->dl_handle == NULL` and returns -1; `dl_load_function`, `dl_read_variable`,
    `dl_write_variable` call it (`< 0` -> return NULL) before their `dlsym(`;
  * `FFILibrary.__cffi_close__` body: `backendlib.close_lib()` (closeLib), `self.__dict__.clear()` (clearDict), in the
    order found; `FFI.dlclose` is `type(lib).__cffi_close__(lib)`.
Anything else in those places raises `Unsupported`.
"""
import ast
import os
import re

import common
from cexpr import function_body, strip_c_comments, CExprError
from pyexpr import Unsupported, expect, find_function


def _read(*parts):
    return open(os.path.join(common.REPO, "src", *parts)).read()


def _norm(s):
    return re.sub(r"\s+", " ", s).strip()


def _statements(text):
    """Top-level statements of a block's text (split at `;` / closing brace at depth 0)."""
    out, depth, cur = [], 0, ""
    for ch in text:
        cur += ch
        if ch in "({":
            depth += 1
        elif ch in ")}":
            depth -= 1
            if ch == "}" and depth == 0:
                out.append(_norm(cur))
                cur = ""
        elif ch == ";" and depth == 0:
            out.append(_norm(cur))
            cur = ""
    if _norm(cur):
        out.append(_norm(cur))
    return [s for s in out if s and s != ";"]


def _if_block(body, cond, what):
    """Text inside `if (<cond>) { ... }` (first occurrence) and the text before it."""
    m = re.search(r"if\s*\(\s*%s\s*\)\s*\{" % cond, body)
    if not m:
        raise Unsupported("%s: `if (%s) {` not found" % (what, cond.replace("\\", "")))
    i, depth = m.end(), 1
    while depth:
        depth += {"{": 1, "}": -1}.get(body[i], 0)
        i += 1
    return body[m.end():i - 1], body[:m.start()]


def _func(src, name, what):
    try:
        return strip_c_comments(function_body(src, name))
    except CExprError as e:
        raise Unsupported("%s: %s" % (what, e))


def extract():
    d = {}
    cdl = _read("c", "cdlopen.c")
    # ---- out-of-line: ffi_dlclose
    body = _func(cdl, "static PyObject *ffi_dlclose", "ffi_dlclose")
    inner, before = _if_block(body, r"libhandle\s*!=\s*NULL", "ffi_dlclose")
    if not re.search(r"libhandle\s*=\s*lib->l_libhandle\s*;", before):
        raise Unsupported("ffi_dlclose: `libhandle = lib->l_libhandle;` before the test not found")
    acts = []
    for st in _statements(inner):
        if re.fullmatch(r"lib->l_libhandle = NULL ?;", st):
            acts.append(".nullHandle")
        elif re.fullmatch(r"PyDict_Clear ?\( ?lib->l_dict ?\) ?;", st):
            acts.append(".clearCache")
        elif re.fullmatch(r"if \( ?cdlopen_close ?\( ?lib->l_libname ?, ?libhandle ?\) ?< ?0 ?\) return NULL ?;", st):
            acts.append(".sysDlclose")
        else:
            raise Unsupported("ffi_dlclose: statement not modelled: `%s`" % st)
    if sorted(acts) != sorted([".nullHandle", ".clearCache", ".sysDlclose"]):
        raise Unsupported("ffi_dlclose: expected exactly one each of NULLing the handle, clearing l_dict, cdlopen_close; found %r" % acts)
    d["ool_close"] = acts
    cbody = _func(cdl, "static int cdlopen_close", "cdlopen_close")
    if not re.search(r"\bdlclose\s*\(\s*libhandle\s*\)", cbody):
        raise Unsupported("cdlopen_close no longer calls dlclose(libhandle)")
    d["ool_gil_released"] = "Py_BEGIN_ALLOW_THREADS" in cbody or "Py_BEGIN_ALLOW_THREADS" in body
    fbody = _func(cdl, "static void *cdlopen_fetch", "cdlopen_fetch")
    k = fbody.find("dlsym(")
    if k < 0:
        k = re.search(r"dlsym\s*\(", fbody).start() if re.search(r"dlsym\s*\(", fbody) else -1
    if k < 0:
        raise Unsupported("cdlopen_fetch no longer calls dlsym")
    m = re.search(r"if\s*\(\s*libhandle\s*==\s*NULL\s*\)\s*\{[^}]*return\s+NULL\s*;[^}]*\}", fbody[:k])
    d["ool_fetch_checks_null"] = bool(m)
    lo = strip_c_comments(_read("c", "lib_obj.c"))
    d["ool_only_through_fetch"] = (not re.search(r"\bdlsym\s*\(", lo)) and len(re.findall(r"=\s*cdlopen_fetch\s*\(", lo)) >= 3
    # ---- in-line: dl_close_lib, dl_check_closed, accessors
    be = _read("c", "_cffi_backend.c")
    body = _func(be, "static PyObject *dl_close_lib", "dl_close_lib")
    inner, _ = _if_block(body, r"dlobj->dl_handle\s*!=\s*NULL", "dl_close_lib")
    acts = []
    for st in _statements(inner):
        if re.fullmatch(r"dlclose ?\( ?dlobj->dl_handle ?\) ?;", st):
            acts.append(".sysDlclose")
        elif re.fullmatch(r"dlobj->dl_handle = NULL ?;", st):
            acts.append(".nullHandle")
        else:
            raise Unsupported("dl_close_lib: statement not modelled: `%s`" % st)
    if sorted(acts) != sorted([".sysDlclose", ".nullHandle"]):
        raise Unsupported("dl_close_lib: expected exactly dlclose + NULLing the handle; found %r" % acts)
    d["inl_close_lib"] = acts
    d["inl_gil_released"] = "Py_BEGIN_ALLOW_THREADS" in body
    chk = _func(be, "static int dl_check_closed", "dl_check_closed")
    ok = bool(re.search(r"if\s*\(\s*dlobj->dl_handle\s*==\s*NULL\s*\)\s*\{[^}]*return\s+-1\s*;[^}]*\}", chk))
    for fn in ("dl_load_function", "dl_read_variable", "dl_write_variable"):
        b = _func(be, "static PyObject *%s" % fn, fn)
        m1 = re.search(r"if\s*\(\s*dl_check_closed\s*\(\s*dlobj\s*\)\s*<\s*0\s*\)\s*return\s+NULL\s*;", b)
        m2 = re.search(r"\bdlsym\s*\(", b)
        if not m2:
            raise Unsupported("%s no longer calls dlsym" % fn)
        ok = ok and bool(m1) and m1.start() < m2.start()
    d["inl_accessors_check"] = ok
    # ---- in-line: api.py
    tree = ast.parse(_read("cffi", "api.py"))
    mk = find_function(tree, "_make_ffi_library")
    cls = next((n for n in mk.body if isinstance(n, ast.ClassDef) and n.name == "FFILibrary"), None)
    if cls is None:
        raise Unsupported("_make_ffi_library.FFILibrary not found")
    close = next((n for n in cls.body if isinstance(n, ast.FunctionDef) and n.name == "__cffi_close__"), None)
    if close is None:
        raise Unsupported("FFILibrary.__cffi_close__ not found")
    py = []
    for st in close.body:
        u = ast.unparse(st)
        if u == "backendlib.close_lib()":
            py.append(".closeLib")
        elif u == "self.__dict__.clear()":
            py.append(".clearDict")
        else:
            raise Unsupported("__cffi_close__: statement not modelled: `%s`" % u)
    if sorted(py) != [".clearDict", ".closeLib"]:
        raise Unsupported("__cffi_close__: expected exactly close_lib() and __dict__.clear(); found %r" % py)
    d["inl_py_close"] = py
    dl = find_function(tree, "FFI.dlclose")
    stmts = [s for s in dl.body if not (isinstance(s, ast.Expr) and isinstance(s.value, ast.Constant))]
    if len(stmts) != 1:
        raise Unsupported("FFI.dlclose: expected a single statement")
    expect(stmts[0], "type(lib).__cffi_close__(lib)", "FFI.dlclose")
    return d


def lean_text():
    d = extract()
    lst = lambda xs: "[" + ", ".join(xs) + "]"
    b = lambda x: "true" if x else "false"
    text = '''/-! Extracted by /verif/translate/c37_steps.py from `ffi_dlclose` / `cdlopen_close` / `cdlopen_fetch`
(src/c/cdlopen.c), src/c/lib_obj.c, `dl_close_lib` / `dl_check_closed` / `dl_*` accessors (src/c/_cffi_backend.c) and
`FFILibrary.__cffi_close__` / `FFI.dlclose` (src/cffi/api.py) of the working tree.  `Model/DlClose.lean` builds the
step sequence of its `closeStep` from these lists. -/
namespace CffiVerif.Generated.DlCloseSteps

inductive Act
  | nullHandle     -- the handle field := NULL
  | clearCache     -- clear the attribute cache (`PyDict_Clear(lib->l_dict)` / `self.__dict__.clear()`)
  | sysDlclose     -- the C-level `dlclose()`
deriving DecidableEq, Repr

inductive PyAct
  | closeLib       -- `backendlib.close_lib()` (one C call: `dl_close_lib`)
  | clearDict      -- `self.__dict__.clear()`
deriving DecidableEq, Repr

/-- `ffi_dlclose`: the statements inside `if (libhandle != NULL) { … }`, in program order. -/
def outOfLineClose : List Act := %s
/-- `Py_BEGIN_ALLOW_THREADS` around the `dlclose()` of `cdlopen_close` / inside `ffi_dlclose`. -/
def outOfLineGilReleased : Bool := %s
/-- `cdlopen_fetch` returns NULL on `libhandle == NULL` before it calls `dlsym`. -/
def outOfLineFetchChecksNull : Bool := %s
/-- lib_obj.c reaches the library only through `cdlopen_fetch`. -/
def outOfLineOnlyThroughFetch : Bool := %s

/-- `dl_close_lib`: the statements inside `if (dlobj->dl_handle != NULL) { … }`, in program order. -/
def inlineCloseLib : List Act := %s
def inlineCloseLibGilReleased : Bool := %s
/-- `dl_check_closed` tests for the NULL handle and all three accessors call it before `dlsym`. -/
def inlineAccessorsCheckClosed : Bool := %s
/-- `FFILibrary.__cffi_close__`: its statements in program order. -/
def inlinePyClose : List PyAct := %s

end CffiVerif.Generated.DlCloseSteps
''' % (lst(d["ool_close"]), b(d["ool_gil_released"]), b(d["ool_fetch_checks_null"]), b(d["ool_only_through_fetch"]),
       lst(d["inl_close_lib"]), b(d["inl_gil_released"]), b(d["inl_accessors_check"]), lst(d["inl_py_close"]))
    return text, d


def run():
    text, d = lean_text()
    return common.write_generated("DlCloseSteps", text, "out-of-line close=%s gil_released=%s fetch_checks=%s; in-line close_lib=%s py=%s checks=%s"
                                  % (d["ool_close"], d["ool_gil_released"], d["ool_fetch_checks_null"], d["inl_close_lib"],
                                     d["inl_py_close"], d["inl_accessors_check"]))


if __name__ == "__main__":
    print(lean_text()[0])
