"""Regenerate CffiVerif/Generated/ClosureSteps.lean from src/c/malloc_closure.h of the working tree: the statement
shapes of the free-list operations, as abstract list operations.

  * `cffi_closure_free(p)`: after the lock macro, exactly
        item = (union mmapped_block *)p;  item->next = free_list;  free_list = item;        -> [linkToHead, setHead]
  * `cffi_closure_alloc()`: exactly
        if (!free_list) more_core();                               -> growIfEmpty
        if (!free_list) { UNLOCK; return NULL; }                   -> nullIfEmpty
        item = free_list;  free_list = item->next;                 -> takeHead, dropHead
        return &item->closure;                                     -> retItem
  * `more_core()`: its last statement is the loop
        for (i = 0; i < count; ++i) { item->next = free_list; free_list = item; ++item; }  -> [linkToHead, setHead, nextBlock]
    and the only other writes to `free_list` / `->next` in the file are the ones above.
Any other statement in those places raises `Unsupported`.
"""
import os
import re

import common
from cexpr import function_body, strip_c_comments, CExprError
from pyexpr import Unsupported


def _norm(s):
    return re.sub(r"\s+", " ", s).strip()


def _stmts(text):
    out, depth, cur = [], 0, ""
    for ch in text:
        cur += ch
        if ch in "({":
            depth += 1
        elif ch in ")}":
            depth -= 1
            if ch == "}" and depth == 0:
                out.append(_norm(cur))
                cur = ""
        elif ch == ";" and depth == 0:
            out.append(_norm(cur))
            cur = ""
    if _norm(cur):
        out.append(_norm(cur))
    return [s for s in out if s and s != ";"]


LOCKS = (r"MALLOC_CLOSURE_LOCK ?\( ?\) ?;", r"MALLOC_CLOSURE_UNLOCK ?\( ?\) ?;")


def _classify(stmts, table, what):
    acts = []
    for st in stmts:
        if any(re.fullmatch(l, st) for l in LOCKS):
            continue
        for name, rx in table:
            if re.fullmatch(rx, st):
                if name:
                    acts.append(name)
                break
        else:
            raise Unsupported("%s: statement not modelled: `%s`" % (what, st))
    return acts


def extract():
    src = strip_c_comments(open(os.path.join(common.REPO, "src", "c", "malloc_closure.h")).read())
    # drop preprocessor lines (the lock macros are defined with #define)
    code = "\n".join(l for l in src.split("\n") if not l.lstrip().startswith("#"))

    def body(sig, what):
        try:
            return function_body(code, sig)
        except CExprError as e:
            raise Unsupported("%s: %s" % (what, e))

    free = _classify(_stmts(body("static void cffi_closure_free", "cffi_closure_free")), [
        (None, r"union mmapped_block \*item = \(union mmapped_block \*\) ?p ?;"),
        (".linkToHead", r"item->next = free_list ?;"),
        (".setHead", r"free_list = item ?;"),
    ], "cffi_closure_free")
    alloc = _classify(_stmts(body("static ffi_closure *cffi_closure_alloc", "cffi_closure_alloc")), [
        (None, r"union mmapped_block \*item ?;"),
        (".growIfEmpty", r"if \( ?! ?free_list ?\) more_core ?\( ?\) ?;"),
        (".nullIfEmpty", r"if \( ?! ?free_list ?\) \{ (MALLOC_CLOSURE_UNLOCK ?\( ?\) ?; )?return NULL ?; \}"),
        (".takeHead", r"item = free_list ?;"),
        (".dropHead", r"free_list = item->next ?;"),
        (".retItem", r"return &item->closure ?;"),
    ], "cffi_closure_alloc")
    mc = body("static void more_core", "more_core")
    loops = list(re.finditer(r"for\s*\(\s*i\s*=\s*0\s*;\s*i\s*<\s*count\s*;\s*\+\+i\s*\)\s*\{([^}]*)\}", mc))
    if len(loops) != 1 or mc[loops[0].end():].strip() != "":
        raise Unsupported("more_core: expected to end with the single loop `for (i = 0; i < count; ++i) {...}`")
    loop = _classify(_stmts(loops[0].group(1)), [
        (".linkToHead", r"item->next = free_list ?;"),
        (".setHead", r"free_list = item ?;"),
        (".nextBlock", r"\+\+ ?item ?;"),
    ], "more_core loop")
    if re.search(r"\bfree_list\s*=(?!=)|->next\s*=(?!=)", mc[:loops[0].start()]):
        raise Unsupported("more_core writes the free list outside its final loop")
    # no other writer of the free list in the file
    writes = len(re.findall(r"\bfree_list\s*=(?!=)", code))
    links = len(re.findall(r"->next\s*=(?!=)", code))
    decl = len(re.findall(r"\*\s*free_list\s*=\s*0\s*;", code))
    other = (writes - decl) != (free.count(".setHead") + alloc.count(".dropHead") + loop.count(".setHead")) or \
        links != (free.count(".linkToHead") + loop.count(".linkToHead"))
    if other:
        raise Unsupported("malloc_closure.h: the free list is written somewhere else than in the modelled statements")
    if re.search(r"\bfree_tail\b|\bprev\b", code):
        raise Unsupported("malloc_closure.h: the free list has a second entry point (tail/prev pointer): not the modelled stack")
    return {"free": free, "alloc": alloc, "loop": loop}


def lean_text():
    d = extract()
    lst = lambda xs: "[" + ", ".join(xs) + "]"
    text = '''/-! Extracted by /verif/translate/c29_steps.py from src/c/malloc_closure.h of the working tree: the statements of
`cffi_closure_free`, `cffi_closure_alloc` and of the loop of `more_core`, in program order, as abstract operations on
the free list (`C29.alloc_free_are_source` ties `Model/Closures.lean` to them). -/
namespace CffiVerif.Generated.ClosureSteps

inductive Stmt
  | linkToHead     -- `item->next = free_list;`
  | setHead        -- `free_list = item;`
  | nextBlock      -- `++item;`
  | growIfEmpty    -- `if (!free_list) more_core();`
  | nullIfEmpty    -- `if (!free_list) return NULL;`
  | takeHead       -- `item = free_list;`
  | dropHead       -- `free_list = item->next;`
  | retItem        -- `return &item->closure;`
deriving DecidableEq, Repr

def closureFree : List Stmt := %s
def closureAlloc : List Stmt := %s
def moreCoreLoop : List Stmt := %s

end CffiVerif.Generated.ClosureSteps
''' % (lst(d["free"]), lst(d["alloc"]), lst(d["loop"]))
    return text, d


def run():
    text, d = lean_text()
    return common.write_generated("ClosureSteps", text, "free=%s alloc=%s more_core loop=%s" % (d["free"], d["alloc"], d["loop"]))


if __name__ == "__main__":
    print(lean_text()[0])
