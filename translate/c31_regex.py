"""Regenerate CffiVerif/Generated/PreprocessRegex.lean from the regular expressions that
src/cffi/cparser.py of the working tree contains now.

1. The pattern strings and flags of `_r_comment`, `_r_define`, `_r_line_directive` are read from the
   module-level `NAME = re.compile(<string literal(s)>, <flags>)` assignments with `ast`
   (nothing is imported from the tree).
2. Each pattern is parsed with Python's own parser (`re._parser`, the former `sre_parse`) under those flags.
3. The parse tree is compiled into an explicit backtracking-NFA table (`Array Instr`, the instruction
   set of `CffiVerif/Model/Regex.lean`): one `char` instruction per consumed code point with its
   character class as ranges/categories over code points, `split` with the priority that makes a
   repeat greedy or lazy, `assert` for `^ $ \\b`, `save` for groups.  The Lean driver runs these
   tables (`Regex.findAll` / `subWith`) and the harness compares them with the real `re` objects.
4. From the same tree, the *shape* that the hand-written transducer of `Model/Preprocess.lean`
   implements is extracted (`CommentShape`, `DefineShape`: opener/closer literals, the classes of the
   "plain character | backslash + any" loop, lazy flags, anchors).  `Props/C31.lean` proves that the
   extracted shape is the one the transducer was written for and gives a meaning lemma per class.

Anything outside the supported subset raises `Unsupported` (never an approximation): flags other than
MULTILINE / DOTALL / UNICODE, back-references, look-around, atomic groups, possessive repeats, inline
flag groups, repeats of a nullable body, patterns that can match the empty string, and -- for step 4 --
a tree that does not have exactly the shape of the transducer.
"""
import ast
import os
import re
import re._constants as C
import re._parser as P

import common
from pyexpr import Unsupported, dotted

NAMES = ["_r_comment", "_r_define", "_r_line_directive"]
FLAG_NAMES = {"DOTALL": re.DOTALL, "S": re.DOTALL, "MULTILINE": re.MULTILINE, "M": re.MULTILINE,
              "UNICODE": re.UNICODE, "U": re.UNICODE, "IGNORECASE": re.IGNORECASE, "I": re.IGNORECASE,
              "VERBOSE": re.VERBOSE, "X": re.VERBOSE, "ASCII": re.ASCII, "A": re.ASCII,
              "LOCALE": re.LOCALE, "L": re.LOCALE}
SUPPORTED_FLAGS = re.DOTALL | re.MULTILINE | re.UNICODE


# ---------------------------------------------------------------- 1. read the source

def _flags(node):
    if isinstance(node, ast.BinOp) and isinstance(node.op, ast.BitOr):
        return _flags(node.left) | _flags(node.right)
    d = dotted(node)
    if d is not None and d.startswith("re.") and d[3:] in FLAG_NAMES:
        return int(FLAG_NAMES[d[3:]])
    if isinstance(node, ast.Constant) and isinstance(node.value, int):
        return node.value
    raise Unsupported("flags expression `%s`" % ast.unparse(node))


def read_patterns():
    src = open(os.path.join(common.REPO, "src", "cffi", "cparser.py")).read()
    tree = ast.parse(src)
    found = {}
    for st in tree.body:
        if isinstance(st, ast.Assign) and len(st.targets) == 1 and isinstance(st.targets[0], ast.Name) \
                and st.targets[0].id in NAMES:
            name = st.targets[0].id
            v = st.value
            if not (isinstance(v, ast.Call) and dotted(v.func) == "re.compile" and 1 <= len(v.args) <= 2
                    and not v.keywords and isinstance(v.args[0], ast.Constant) and isinstance(v.args[0].value, str)):
                raise Unsupported("%s is not `re.compile(<string literal>[, flags])`: `%s`" % (name, ast.unparse(v)[:80]))
            if name in found:
                raise Unsupported("%s is assigned twice" % name)
            found[name] = (v.args[0].value, _flags(v.args[1]) if len(v.args) == 2 else 0)
    for n in NAMES:
        if n not in found:
            raise Unsupported("no module-level assignment of %s in cparser.py" % n)
    return found


# ---------------------------------------------------------------- 2./3. parse and compile to an NFA table

CATS = {C.CATEGORY_SPACE: ("space", False), C.CATEGORY_NOT_SPACE: ("space", True),
        C.CATEGORY_DIGIT: ("digit", False), C.CATEGORY_NOT_DIGIT: ("digit", True),
        C.CATEGORY_WORD: ("word", False), C.CATEGORY_NOT_WORD: ("word", True)}


def cc_of(op, av, flags):
    """character class of a one-character node -> (neg, [items]); items: ('range', lo, hi) / ('cat', name, negated)"""
    if op is C.LITERAL:
        return (False, [("range", av, av)])
    if op is C.NOT_LITERAL:
        return (True, [("range", av, av)])
    if op is C.ANY:
        return (True, []) if flags & re.DOTALL else (True, [("range", 10, 10)])
    if op is C.IN:
        neg, items = False, []
        for i, (o, a) in enumerate(av):
            if o is C.NEGATE:
                if i != 0:
                    raise Unsupported("NEGATE not at the start of a class")
                neg = True
            elif o is C.LITERAL:
                items.append(("range", a, a))
            elif o is C.RANGE:
                items.append(("range", a[0], a[1]))
            elif o is C.CATEGORY:
                if a not in CATS:
                    raise Unsupported("category %s" % a)
                items.append(("cat",) + CATS[a])
            else:
                raise Unsupported("class item %s" % o)
        return (neg, items)
    return None


def nullable(items):
    for op, av in items:
        if op in (C.LITERAL, C.NOT_LITERAL, C.ANY, C.IN):
            return False
        if op is C.BRANCH:
            if all(not nullable(a) for a in av[1]):
                return False
        elif op is C.SUBPATTERN:
            if not nullable(av[3]):
                return False
        elif op in (C.MAX_REPEAT, C.MIN_REPEAT):
            if av[0] > 0 and not nullable(av[2]):
                return False
        elif op is C.AT:
            pass
        else:
            raise Unsupported("construct %s" % op)
    return True


class Compiler:
    def __init__(self, flags):
        self.flags = flags
        self.prog = []

    def emit(self, ins):
        self.prog.append(ins)
        return len(self.prog) - 1

    def seq(self, items):
        for op, av in items:
            self.node(op, av)

    def node(self, op, av):
        cc = cc_of(op, av, self.flags)
        if cc is not None:
            self.emit(["char", cc, len(self.prog) + 1])
        elif op is C.AT:
            m = bool(self.flags & re.MULTILINE)
            a = {C.AT_BEGINNING: ("bol", m), C.AT_END: ("eol", m), C.AT_BOUNDARY: ("wordb",),
                 C.AT_NON_BOUNDARY: ("notWordb",), C.AT_BEGINNING_STRING: ("bol", False)}.get(av)
            if a is None:
                raise Unsupported("anchor %s" % av)
            self.emit(["assert", a, len(self.prog) + 1])
        elif op is C.SUBPATTERN:
            group, add, dele, p = av
            if add or dele:
                raise Unsupported("inline flags in a group")
            if group is not None:
                self.emit(["save", 2 * group, len(self.prog) + 1])
            self.seq(p)
            if group is not None:
                self.emit(["save", 2 * group + 1, len(self.prog) + 1])
        elif op is C.BRANCH:
            alts = av[1]
            jumps = []
            for i, alt in enumerate(alts):
                if i < len(alts) - 1:
                    sp = self.emit(["split", len(self.prog) + 1, None])
                self.seq(alt)
                if i < len(alts) - 1:
                    jumps.append(self.emit(["jmp", None]))
                    self.prog[sp][2] = len(self.prog)
            for j in jumps:
                self.prog[j][1] = len(self.prog)
        elif op in (C.MAX_REPEAT, C.MIN_REPEAT):
            lo, hi, body = av
            greedy = op is C.MAX_REPEAT
            if nullable(body):
                raise Unsupported("repeat of a body that can match the empty string")
            if lo > 8 or (hi is not C.MAXREPEAT and hi > 8):
                raise Unsupported("bounded repeat {%s,%s} too large to unroll" % (lo, hi))
            for _ in range(lo):
                self.seq(body)
            if hi is C.MAXREPEAT:
                sp = self.emit(["split", None, None])
                self.seq(body)
                self.emit(["jmp", sp])
                out = len(self.prog)
                self.prog[sp][1], self.prog[sp][2] = (sp + 1, out) if greedy else (out, sp + 1)
            else:
                pend = []
                for _ in range(hi - lo):
                    sp = self.emit(["split", None, None])
                    pend.append(sp)
                    self.seq(body)
                out = len(self.prog)
                for sp in pend:
                    self.prog[sp][1], self.prog[sp][2] = (sp + 1, out) if greedy else (out, sp + 1)
        else:
            raise Unsupported("regular-expression construct %s is not supported by the NFA compiler" % op)

    def finish(self):
        self.emit(["accept"])
        # resolve jumps: a `jmp t` is an instruction-free alias; redirect every reference to it
        def target(i, seen=()):
            while self.prog[i][0] == "jmp":
                if i in seen:
                    raise Unsupported("jump cycle")
                seen = seen + (i,)
                i = self.prog[i][1]
            return i
        keep = [i for i, ins in enumerate(self.prog) if ins[0] != "jmp"]
        newidx = {old: new for new, old in enumerate(keep)}
        out = []
        for i in keep:
            ins = list(self.prog[i])
            if ins[0] in ("char", "assert", "save"):
                ins[2] = newidx[target(ins[2])]
            elif ins[0] == "split":
                ins[1], ins[2] = newidx[target(ins[1])], newidx[target(ins[2])]
            out.append(ins)
        return out


def compile_pattern(pattern, flags):
    if flags & ~SUPPORTED_FLAGS & ~re.UNICODE:
        raise Unsupported("flags %r (only MULTILINE, DOTALL are modelled)" % re.RegexFlag(flags))
    tree = P.parse(pattern, flags)
    if tree.state.flags & ~SUPPORTED_FLAGS:
        raise Unsupported("flags %r after parsing" % re.RegexFlag(tree.state.flags))
    if nullable(list(tree)):
        raise Unsupported("the pattern can match the empty string")
    c = Compiler(tree.state.flags)
    c.seq(list(tree))
    return list(tree), tree.state.flags, c.finish()


# ---------------------------------------------------------------- 4. the shape of the transducer

def alternatives(items):
    """Top-level alternatives as flat node lists (sre factors a common prefix out of a BRANCH)."""
    for i, (op, av) in enumerate(items):
        if op is C.BRANCH:
            res = []
            for alt in av[1]:
                for tail in alternatives(list(alt) + list(items[i + 1:])):
                    res.append(list(items[:i]) + tail)
            return res
    return [list(items)]


def literals(nodes, what):
    out = []
    for op, av in nodes:
        if op is not C.LITERAL:
            raise Unsupported("%s: expected literal characters, found %s" % (what, op))
        out.append(av)
    return out


def unit_loop(node, flags, what):
    """`(plain | esc any)*` possibly wrapped in (non-)capturing groups -> dict"""
    op, av = node
    if op not in (C.MIN_REPEAT, C.MAX_REPEAT) or av[0] != 0 or av[1] is not C.MAXREPEAT:
        raise Unsupported("%s: expected a `*` / `*?` loop, found %s %s" % (what, op, av[:2] if isinstance(av, tuple) else ""))
    body = list(av[2])
    while len(body) == 1 and body[0][0] is C.SUBPATTERN:
        body = list(body[0][1][3])
    if not (len(body) == 1 and body[0][0] is C.BRANCH and len(body[0][1][1]) == 2):
        raise Unsupported("%s: the loop body is not a two-way alternative" % what)
    a1, a2 = [list(a) for a in body[0][1][1]]
    if len(a1) != 1 or cc_of(a1[0][0], a1[0][1], flags) is None:
        raise Unsupported("%s: the first alternative of the loop is not one character class" % what)
    if not (len(a2) == 2 and a2[0][0] is C.LITERAL and cc_of(a2[1][0], a2[1][1], flags) is not None):
        raise Unsupported("%s: the second alternative of the loop is not `<escape character> <one character>` "
                          "(found %d nodes: %s)" % (what, len(a2), ", ".join(str(o) for o, _ in a2)))
    return {"plain": cc_of(a1[0][0], a1[0][1], flags), "esc": a2[0][1], "escAny": cc_of(a2[1][0], a2[1][1], flags),
            "lazy": op is C.MIN_REPEAT}


def anchor(node, flags, what):
    op, av = node
    m = bool(flags & re.MULTILINE)
    a = {C.AT_BEGINNING: ("bol", m), C.AT_END: ("eol", m), C.AT_BOUNDARY: ("wordb",),
         C.AT_NON_BOUNDARY: ("notWordb",)}.get(av) if op is C.AT else None
    if a is None:
        raise Unsupported("%s: expected an anchor, found %s" % (what, op))
    return a


def star_class(node, flags, what, lo):
    op, av = node
    if op is not C.MAX_REPEAT or av[0] != lo or av[1] is not C.MAXREPEAT or len(av[2]) != 1 \
            or cc_of(av[2][0][0], av[2][0][1], flags) is None:
        raise Unsupported("%s: expected a greedy `<class>%s`" % (what, "*" if lo == 0 else "+"))
    return cc_of(av[2][0][0], av[2][0][1], flags)


def comment_shape(tree, flags):
    alts = alternatives(tree)
    if len(alts) != 2:
        raise Unsupported("_r_comment: expected two alternatives, found %d" % len(alts))
    blk, line = alts
    # block: literals, lazy/greedy star of one class, literals
    reps = [i for i, (op, _) in enumerate(blk) if op in (C.MIN_REPEAT, C.MAX_REPEAT)]
    if len(reps) != 1:
        raise Unsupported("_r_comment, first alternative: expected exactly one repeat")
    r = reps[0]
    op, av = blk[r]
    if av[0] != 0 or av[1] is not C.MAXREPEAT or len(av[2]) != 1 or cc_of(av[2][0][0], av[2][0][1], flags) is None:
        raise Unsupported("_r_comment, first alternative: the repeat is not `<class>*`")
    shape = {"blockOpen": literals(blk[:r], "block opener"), "blockBody": cc_of(av[2][0][0], av[2][0][1], flags),
             "blockLazy": op is C.MIN_REPEAT, "blockClose": literals(blk[r + 1:], "block closer")}
    if len(line) < 3:
        raise Unsupported("_r_comment, second alternative too short")
    shape["lineOpen"] = literals(line[:-2], "line-comment opener")
    shape["lineBody"] = unit_loop(line[-2], flags, "_r_comment, second alternative")
    shape["lineEnd"] = anchor(line[-1], flags, "_r_comment, end of the second alternative")
    return shape


def define_shape(tree, flags):
    t = list(tree)
    if len(alternatives(t)) != 1:
        raise Unsupported("_r_define: unexpected alternation at top level")

    def grp(node, n, what):
        if node[0] is not C.SUBPATTERN or node[1][0] != n or node[1][1] or node[1][2]:
            raise Unsupported("_r_define: expected capturing group %d for the %s" % (n, what))
        return list(node[1][3])

    if len(t) < 9:
        raise Unsupported("_r_define: too few elements")
    shape = {"start": anchor(t[0], flags, "_r_define start"), "lead": star_class(t[1], flags, "_r_define lead", 0)}
    if t[2][0] is not C.LITERAL:
        raise Unsupported("_r_define: expected the literal '#'")
    shape["hash"] = t[2][1]
    shape["gap1"] = star_class(t[3], flags, "_r_define after '#'", 0)
    i = 4
    kw = []
    while i < len(t) and t[i][0] is C.LITERAL:
        kw.append(t[i][1])
        i += 1
    shape["keyword"] = kw
    if len(t) - i != 5:
        raise Unsupported("_r_define: expected `\\s+ (name) \\b (value) $` after the keyword, found %d elements" % (len(t) - i))
    shape["gap2"] = star_class(t[i], flags, "_r_define after the keyword", 1)
    name = grp(t[i + 1], 1, "macro name")
    if len(name) != 2 or cc_of(name[0][0], name[0][1], flags) is None:
        raise Unsupported("_r_define: the name group is not `<class><class>*`")
    shape["nameStart"] = cc_of(name[0][0], name[0][1], flags)
    shape["nameRest"] = star_class(name[1], flags, "_r_define name", 0)
    shape["afterName"] = anchor(t[i + 2], flags, "_r_define after the name")
    val = grp(t[i + 3], 2, "macro value")
    if len(val) != 1:
        raise Unsupported("_r_define: the value group is not a single loop")
    shape["value"] = unit_loop(val[0], flags, "_r_define value")
    shape["stop"] = anchor(t[i + 4], flags, "_r_define end")
    return shape


# ---------------------------------------------------------------- Lean output

def lean_cc(cc):
    neg, items = cc
    its = []
    for it in items:
        if it[0] == "range":
            its.append(".range %d %d" % (it[1], it[2]))
        else:
            its.append(".cat .%s %s" % (it[1], "true" if it[2] else "false"))
    return "⟨%s, [%s]⟩" % ("true" if neg else "false", ", ".join(its))


def lean_assert(a):
    if a[0] in ("bol", "eol"):
        return "(.%s %s)" % (a[0], "true" if a[1] else "false")
    return ".%s" % a[0]


def lean_instr(ins):
    if ins[0] == "char":
        return ".char %s %d" % (lean_cc(ins[1]), ins[2])
    if ins[0] == "split":
        return ".split %d %d" % (ins[1], ins[2])
    if ins[0] == "assert":
        return ".assert %s %d" % (lean_assert(ins[1]), ins[2])
    if ins[0] == "save":
        return ".save %d %d" % (ins[1], ins[2])
    return ".accept"


def lean_nats(xs):
    return "[" + ", ".join(str(x) for x in xs) + "]"


def lean_loop(u):
    return "{ plain := %s, esc := %d, escAny := %s, lazy := %s }" % (
        lean_cc(u["plain"]), u["esc"], lean_cc(u["escAny"]), "true" if u["lazy"] else "false")


def lean_text():
    pats = read_patterns()
    out = ['import CffiVerif.Model.Regex', '',
           '/-! Compiled by /verif/translate/c31_regex.py from the regular expressions of src/cffi/cparser.py of the',
           'working tree (parsed with Python\'s own `re._parser`): the backtracking-NFA tables that the model driver',
           'runs, and the shapes that `Props/C31.lean` compares with the hand-written transducer. -/',
           'namespace CffiVerif.Generated.PreprocessRegex', 'open CffiVerif.Regex', '']
    info = {}
    lean_name = {"_r_comment": "comment", "_r_define": "define", "_r_line_directive": "lineDirective"}
    trees = {}
    for name in NAMES:
        pattern, flags = pats[name]
        tree, pflags, prog = compile_pattern(pattern, flags)
        trees[name] = (tree, pflags)
        info[name] = {"pattern": pattern, "flags": str(re.RegexFlag(pflags)), "instructions": len(prog)}
        out.append("/-- `%s = re.compile(%s, %s)`: %d instructions; lazy loops have their exit as first branch of the split. -/"
                   % (name, ascii(pattern).replace("-/", "- /"), re.RegexFlag(flags) if flags else 0, len(prog)))
        out.append("def %sProg : Array Instr := #[" % lean_name[name])
        out.append(",\n".join("  /- %2d -/ %s" % (i, lean_instr(ins)) for i, ins in enumerate(prog)))
        out.append("]")
        out.append("")
    cs = comment_shape(*trees["_r_comment"])
    out.append("/-- The shape of `_r_comment`: `blockOpen blockBody*? blockClose | lineOpen (plain | esc escAny)*? lineEnd`. -/")
    out.append("def commentShape : CommentShape :=\n  { blockOpen := %s, blockBody := %s, blockLazy := %s, blockClose := %s,\n"
               "    lineOpen := %s,\n    lineBody := %s,\n    lineEnd := %s }" % (
                   lean_nats(cs["blockOpen"]), lean_cc(cs["blockBody"]), "true" if cs["blockLazy"] else "false",
                   lean_nats(cs["blockClose"]), lean_nats(cs["lineOpen"]), lean_loop(cs["lineBody"]),
                   lean_assert(cs["lineEnd"]).strip("()")if False else lean_assert(cs["lineEnd"])))
    out.append("")
    ds = define_shape(*trees["_r_define"])
    out.append("/-- The shape of `_r_define`: `start lead* hash gap1* keyword gap2+ (nameStart nameRest*) afterName ((plain | esc escAny)*?) stop`. -/")
    out.append("def defineShape : DefineShape :=\n  { start := %s, lead := %s, hash := %d, gap1 := %s,\n    keyword := %s, gap2 := %s,\n"
               "    nameStart := %s,\n    nameRest := %s,\n    afterName := %s,\n    value := %s,\n    stop := %s }" % (
                   lean_assert(ds["start"]), lean_cc(ds["lead"]), ds["hash"], lean_cc(ds["gap1"]), lean_nats(ds["keyword"]),
                   lean_cc(ds["gap2"]), lean_cc(ds["nameStart"]), lean_cc(ds["nameRest"]), lean_assert(ds["afterName"]),
                   lean_loop(ds["value"]), lean_assert(ds["stop"])))
    out.append("")
    out.append("end CffiVerif.Generated.PreprocessRegex")
    return "\n".join(out) + "\n", info


def run():
    text, info = lean_text()
    return common.write_generated("PreprocessRegex", text, "NFA tables and shapes of %s" % (info,))


if __name__ == "__main__":
    print(lean_text()[0])
