"""A small translator from Python source (the `ast` of a function body, or of a slice of it)
to a Lean 4 definition in the `Except Err` monad.

Supported: integer arithmetic `+ - * // % << >> & | ^` and unary `-`/`+`; comparisons (also
chained, `in (tuple of constants)`); `and` / `or` / `not` and `^ & |` on booleans; conditional
expressions; string and integer constants; local assignment and augmented assignment;
`if`/`elif`/`else`, `return`, `raise Exc(...)`; calls and attribute reads through explicit
tables given by the caller.  Everything else raises `Unsupported`: a function that changes
shape is never translated to something approximately right.

Python `int` -> `Int`, `bool` -> `Bool`, `str` -> `String`.  Python operators are mapped to the
functions of `CffiVerif/Model/ConstExprBase.lean` (`pyFloorDiv`, `pyMod`, `pyShl`, `pyShr`,
`pyAnd`, `pyOr`, `pyXor`).  A statement list is translated in continuation style (the code after
an `if` is copied into every branch that can fall through), so local mutation becomes shadowing.
"""
import ast


class Unsupported(Exception):
    pass


LEAN_TYPE = {"int": "Int", "bool": "Bool", "str": "String"}

INT_BINOPS = {
    ast.Add: "({a} + {b})", ast.Sub: "({a} - {b})", ast.Mult: "({a} * {b})",
    ast.FloorDiv: "(pyFloorDiv {a} {b})", ast.Mod: "(pyMod {a} {b})",
    ast.LShift: "(pyShl {a} {b})", ast.RShift: "(pyShr {a} {b})",
    ast.BitAnd: "(pyAnd {a} {b})", ast.BitOr: "(pyOr {a} {b})", ast.BitXor: "(pyXor {a} {b})",
}
BOOL_BINOPS = {ast.BitXor: "({a} != {b})", ast.BitAnd: "({a} && {b})", ast.BitOr: "({a} || {b})"}
INT_CMP = {ast.Lt: "decide ({a} < {b})", ast.LtE: "decide ({a} ≤ {b})", ast.Gt: "decide ({a} > {b})",
           ast.GtE: "decide ({a} ≥ {b})", ast.Eq: "({a} == {b})", ast.NotEq: "({a} != {b})"}


def lean_str(s):
    out = []
    for ch in s:
        if ch == "\\":
            out.append("\\\\")
        elif ch == '"':
            out.append('\\"')
        elif 32 <= ord(ch) < 127:
            out.append(ch)
        else:
            raise Unsupported("non-printable character in a string constant")
    return '"' + "".join(out) + '"'


def dotted(node):
    """`a.b.c` -> "a.b.c" (None when the expression is not a plain dotted name)."""
    if isinstance(node, ast.Name):
        return node.id
    if isinstance(node, ast.Attribute):
        base = dotted(node.value)
        return None if base is None else base + "." + node.attr
    return None


class Translator:
    """params: {python name: (lean name, type)}; attrs: {dotted python expr: (lean name, type)};
    calls: {dotted callee or ".method": handler(tr, node, args, receiver) -> (lean, type, monadic)};
    exceptions: {exception class name: Err constructor}."""

    def __init__(self, params, attrs=None, calls=None, exceptions=None, checked_lshift=False):
        self.checked_lshift = checked_lshift      # `a << b` -> the raising `pyShlChecked a b`
        self.params = dict(params)
        self.attrs = dict(attrs or {})
        self.calls = dict(calls or {})
        self.exceptions = dict(exceptions or {})
        self.tmp = 0

    # ---------------------------------------------------------------- expressions
    def expr(self, node, env, pre):
        if isinstance(node, ast.Constant):
            v = node.value
            if isinstance(v, bool):
                return ("true" if v else "false"), "bool"
            if isinstance(v, int):
                return ("(%d : Int)" % v), "int"
            if isinstance(v, str):
                return lean_str(v), "str"
            raise Unsupported("constant %r" % (v,))
        if isinstance(node, ast.Name):
            if node.id in env:
                return env[node.id]
            if node.id in self.params:
                return self.params[node.id]
            raise Unsupported("unknown name %s" % node.id)
        if isinstance(node, ast.Attribute):
            d = dotted(node)
            if d in self.attrs:
                return self.attrs[d]
            raise Unsupported("attribute %s" % ast.unparse(node))
        if isinstance(node, ast.UnaryOp):
            a, ta = self.expr(node.operand, env, pre)
            if isinstance(node.op, ast.USub) and ta == "int":
                return "(-%s)" % a, "int"
            if isinstance(node.op, ast.UAdd) and ta == "int":
                return a, "int"
            if isinstance(node.op, ast.Not) and ta == "bool":
                return "(!%s)" % a, "bool"
            raise Unsupported("unary %s on %s" % (type(node.op).__name__, ta))
        if isinstance(node, ast.BinOp):
            a, ta = self.expr(node.left, env, pre)
            b, tb = self.expr(node.right, env, pre)
            if ta == tb == "int" and isinstance(node.op, ast.LShift) and self.checked_lshift:
                t = "t%d" % self.tmp
                self.tmp += 1
                pre.append((t, "(pyShlChecked %s %s)" % (a, b)))
                return t, "int"
            if ta == tb == "int" and type(node.op) in INT_BINOPS:
                return INT_BINOPS[type(node.op)].format(a=a, b=b), "int"
            if ta == tb == "bool" and type(node.op) in BOOL_BINOPS:
                return BOOL_BINOPS[type(node.op)].format(a=a, b=b), "bool"
            raise Unsupported("operator %s on (%s, %s)" % (type(node.op).__name__, ta, tb))
        if isinstance(node, ast.BoolOp):
            parts = [self.expr(v, env, pre) for v in node.values]
            if any(t != "bool" for _, t in parts):
                raise Unsupported("and/or on non-boolean operands (truthiness is not translated)")
            if len(pre) and any(isinstance(v, ast.Call) for v in ast.walk(node)):
                raise Unsupported("a raising call inside and/or (short-circuit order)")
            op = " && " if isinstance(node.op, ast.And) else " || "
            return "(" + op.join(p for p, _ in parts) + ")", "bool"
        if isinstance(node, ast.Compare):
            res = []
            left = node.left
            for op, right in zip(node.ops, node.comparators):
                res.append(self.compare(left, op, right, env, pre))
                left = right
            return (res[0] if len(res) == 1 else "(" + " && ".join(res) + ")"), "bool"
        if isinstance(node, ast.IfExp):
            c, tc = self.expr(node.test, env, pre)
            a, ta = self.expr(node.body, env, pre)
            b, tb = self.expr(node.orelse, env, pre)
            if tc != "bool" or ta != tb:
                raise Unsupported("conditional expression with types (%s, %s, %s)" % (tc, ta, tb))
            return "(if %s then %s else %s)" % (c, a, b), ta
        if isinstance(node, ast.Call):
            return self.call(node, env, pre)
        raise Unsupported("expression %s" % ast.dump(node)[:80])

    def compare(self, left, op, right, env, pre):
        a, ta = self.expr(left, env, pre)
        if isinstance(op, (ast.In, ast.NotIn)):
            if not isinstance(right, (ast.Tuple, ast.List)) or not right.elts:
                raise Unsupported("`in` with something else than a literal tuple")
            items = [self.expr(e, env, pre) for e in right.elts]
            if any(t != ta for _, t in items):
                raise Unsupported("`in` over mixed types")
            r = "(" + " || ".join("(%s == %s)" % (a, i) for i, _ in items) + ")"
            return r if isinstance(op, ast.In) else "(!%s)" % r
        b, tb = self.expr(right, env, pre)
        if ta != tb:
            raise Unsupported("comparison of %s with %s" % (ta, tb))
        if ta == "int" and type(op) in INT_CMP:
            return INT_CMP[type(op)].format(a=a, b=b)
        if ta in ("str", "bool") and isinstance(op, (ast.Eq, ast.NotEq)):
            return ("(%s == %s)" if isinstance(op, ast.Eq) else "(%s != %s)") % (a, b)
        raise Unsupported("comparison %s on %s" % (type(op).__name__, ta))

    def call(self, node, env, pre):
        key = dotted(node.func)
        receiver = None
        handler = self.calls.get(key) if key is not None else None
        if handler is None and isinstance(node.func, ast.Attribute):
            handler = self.calls.get("." + node.func.attr)
            if handler is not None:
                receiver = self.expr(node.func.value, env, pre)
        if handler is None:
            raise Unsupported("call of %s" % ast.unparse(node.func))
        if node.keywords:
            raise Unsupported("keyword arguments")
        lean, typ, monadic = handler(self, node, env, pre, receiver)
        if monadic:
            t = "t%d" % self.tmp
            self.tmp += 1
            pre.append((t, lean))
            return t, typ
        return lean, typ

    # ---------------------------------------------------------------- statements
    @staticmethod
    def wrap(pre, body):
        for t, call in reversed(pre):
            body = "(match %s with\n | .error e => .error e\n | .ok %s => %s)" % (call, t, body)
        return body

    def block(self, stmts, env, k):
        """Lean term for the statement list; `k(env)` is the term for falling off its end."""
        if not stmts:
            if k is None:
                raise Unsupported("control can fall off the end of the translated slice")
            return k(env)
        st, rest = stmts[0], stmts[1:]
        cont = lambda e: self.block(rest, e, k)
        if isinstance(st, ast.Pass) or (isinstance(st, ast.Expr) and isinstance(st.value, ast.Constant)):
            return cont(env)
        if isinstance(st, ast.Return):
            if st.value is None:
                raise Unsupported("bare return")
            pre = []
            v, _ = self.expr(st.value, env, pre)
            if pre and pre[-1][0] == v:            # `return f(x)`: the call itself is the result
                t, call = pre.pop()
                return self.wrap(pre, call)
            return self.wrap(pre, "(.ok %s)" % v)
        if isinstance(st, ast.Raise):
            exc = st.exc
            name = dotted(exc.func) if isinstance(exc, ast.Call) else dotted(exc)
            if name not in self.exceptions:
                raise Unsupported("raise of %r" % (name,))
            return "(.error .%s)" % self.exceptions[name]
        if isinstance(st, (ast.Assign, ast.AugAssign)):
            if isinstance(st, ast.Assign):
                if len(st.targets) != 1 or not isinstance(st.targets[0], ast.Name):
                    raise Unsupported("assignment to something else than one local name")
                name = st.targets[0].id
                pre = []
                v, t = self.expr(st.value, env, pre)
            else:
                if not isinstance(st.target, ast.Name):
                    raise Unsupported("augmented assignment to something else than a local name")
                name = st.target.id
                pre = []
                v, t = self.expr(ast.BinOp(left=ast.Name(id=name, ctx=ast.Load()), op=st.op, right=st.value), env, pre)
            if name in self.params:
                raise Unsupported("assignment to parameter %s" % name)
            env2 = dict(env)
            env2[name] = (name, t)
            return self.wrap(pre, "(let %s : %s := %s;\n %s)" % (name, LEAN_TYPE[t], v, cont(env2)))
        if isinstance(st, ast.If):
            pre = []
            c, tc = self.expr(st.test, env, pre)
            if tc != "bool":
                raise Unsupported("`if` on a non-boolean (truthiness is not translated)")
            a = self.block(st.body, env, cont)
            b = self.block(st.orelse, env, cont) if st.orelse else cont(env)
            return self.wrap(pre, "(if %s then\n %s\n else\n %s)" % (c, a, b))
        raise Unsupported("statement %s" % type(st).__name__)

    def function(self, name, stmts, ret, k=None, extra_params=()):
        sig = " ".join("(%s : %s)" % (ln, LEAN_TYPE.get(t, t)) for ln, t in
                       list(self.params.values()) + [(a, t) for a, t in self.attrs.values()] + list(extra_params))
        body = self.block(list(stmts), {}, k)
        return "def %s %s : Except Err %s :=\n %s\n" % (name, sig, LEAN_TYPE.get(ret, ret), body)


# ---------------------------------------------------------------- locating code

def find_function(tree, qualname):
    """`Class.method` or `function` in a parsed module."""
    parts = qualname.split(".")
    body = tree.body
    node = None
    for p in parts:
        node = next((n for n in body if isinstance(n, (ast.ClassDef, ast.FunctionDef)) and n.name == p), None)
        if node is None:
            raise Unsupported("%s not found" % qualname)
        body = node.body
    if not isinstance(node, ast.FunctionDef):
        raise Unsupported("%s is not a function" % qualname)
    return node


def expect(node, source, what):
    """The statement/expression must be exactly `source` (compared after `ast.unparse`)."""
    got = ast.unparse(node)
    want = ast.unparse(ast.parse(source).body[0])
    if isinstance(ast.parse(source).body[0], ast.Expr):
        want = ast.unparse(ast.parse(source).body[0].value)
    if got != want:
        raise Unsupported("%s changed shape: expected `%s`, found `%s`" % (what, want, got))
