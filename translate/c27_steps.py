"""Translator for C27: the statements of the unique-cache functions of /repo/src/c/_cffi_backend.c,
re-extracted on every run into lean/CffiVerif/Generated/UniqueCacheSteps.lean.

  get_or_insert_unique_type      look the key up; if found, resolve the weak reference; if it is live return
                                 the existing object; otherwise make a weak reference to x, store it under
                                 the key, remember the key in x, return x
  get_unique_type                builds the key bytes from the words and calls the above under the lock
  remove_dead_unique_reference   look the key up; if found, resolve the weak reference; ONLY IF it is dead
                                 delete the entry
  ctypedescr_dealloc             untrack, clear the weak references, then (if the type has a key)
                                 remove_dead_unique_reference, then release key / children, free

Each statement is emitted with the conditions of the `if`s around it (error branches `... < 0`, `== NULL`
after an allocation, locking, reference counting of temporaries and asserts are recognised and dropped).
A statement that is not in the table raises.
"""
import os
import re
import sys

sys.path.insert(0, os.path.dirname(os.path.abspath(__file__)))
from cexpr import CExprError
from c21_steps import func_body, statements

# statement -> action (None: recognised, nothing emitted)
ACTS = [
    (r"PyObject \*wr, \*obj|PyObject \*wr|PyObject \*tmp = NULL|int err = 0|int err|PyObject \*key, \*y", None),
    (r"LOCK_UNIQUE_CACHE\(\)|UNLOCK_UNIQUE_CACHE\(\)", None),
    (r"Py_DECREF\(wr\)|Py_XDECREF\(tmp\)|Py_INCREF\(key\)|Py_INCREF\(x\)|assert\(.*\)|PyErr_WriteUnraisable\(NULL\)", None),
    (r"wr = PyDict_GetItemWithError\(unique_cache, unique_key\)", ".lookup"),
    (r"err = PyDict_Contains\(unique_cache, unique_key\)", ".lookup"),
    (r"err = PyWeakref_GetRef\(wr, &tmp\)", ".resolve"),
    (r"err = PyDict_DelItem\(unique_cache, unique_key\)", ".delItem"),
    (r"return obj", ".returnExisting"),
    (r"wr = PyWeakref_NewRef\(\(PyObject \*\)x, NULL\)", ".newWeakref"),
    (r"x->ct_unique_key = key", ".setKey"),
    (r"return \(PyObject \*\)x", ".returnNew"),
    (r"PyObject_GC_UnTrack\(ct\)", ".untrack"),
    (r"PyObject_ClearWeakRefs\(\(PyObject \*\) ?ct\)", ".clearWeakrefs"),
    (r"remove_dead_unique_reference\(ct->ct_unique_key\)", ".removeDead"),
    (r"Py_DECREF\(ct->ct_unique_key\)", ".decrefKey"),
    (r"Py_XDECREF\(ct->ct_itemdescr\)", ".decrefItem"),
    (r"Py_XDECREF\(ct->ct_stuff\)", ".decrefStuff"),
    (r"Py_TYPE\(ct\)->tp_free\(\(PyObject \*\)ct\)", ".free"),
]
# `if (...)` heads -> condition ("error": the branch is an error path and is dropped)
CONDS = [
    (r"if \(PyDict_GetItemRef\(unique_cache, key, &wr\) < 0\)", "lookup-error"),
    (r"if \(PyWeakref_GetRef\(wr, &obj\) < 0\)", "resolve-error"),
    (r"if \(PyDict_SetItem\(unique_cache, key, wr\) < 0\)", "store-error"),
    (r"if \(wr == NULL\)", "error"),
    (r"if \(err < 0\)", "error"),
    (r"if \(wr != NULL\)", ".found"),
    (r"if \(err > 0\)", ".found"),
    (r"if \(obj != NULL\)", ".live"),
    (r"if \(err == 0\)", ".dead"),
    (r"if \(ct->ct_unique_key != NULL\)", ".hasKey"),
]
# conditions whose evaluation is itself a step
COND_STEP = {"lookup-error": ".lookup", "resolve-error": ".resolve", "store-error": ".store"}


def guarded(name, stmts):
    """[(conditions, action)] in source order"""
    out = []
    stack = []           # per open brace: condition or None
    pending = None
    for st in stmts:
        if st == "{":
            stack.append(pending)
            pending = None
            continue
        if st == "}":
            if not stack:
                raise CExprError("%s: unbalanced braces" % name)
            stack.pop()
            continue
        if pending is not None:
            raise CExprError("%s: `if` without braces before %r" % (name, st))
        conds = [c for c in stack if c is not None]
        for rx, c in CONDS:
            if re.fullmatch(rx, st):
                if c in COND_STEP and "error" not in conds:
                    out.append((conds, COND_STEP[c]))
                pending = "error" if (c == "error" or c in COND_STEP) else c
                break
        else:
            if st.startswith("if ") and name == "ctypedescr_dealloc" and \
                    re.fullmatch(r"if \(ct->ct_flags & CT_FUNCTIONPTR\) PyObject_Free\(ct->ct_extra\)", st):
                continue
            if "error" in conds:
                continue                      # inside an error branch
            for rx, a in ACTS:
                if re.fullmatch(rx, st):
                    if a is not None:
                        out.append((conds, a))
                    break
            else:
                if st == "return NULL":
                    raise CExprError("%s: `return NULL` outside an error branch" % name)
                raise CExprError("%s: statement %r is not of the modelled shape" % (name, st))
    return out


def extract(repo):
    src = open(os.path.join(repo, "src/c/_cffi_backend.c")).read()
    out = {}
    for fn in ("get_or_insert_unique_type", "remove_dead_unique_reference", "ctypedescr_dealloc"):
        out[fn] = guarded(fn, statements(func_body(src, fn)))
    # get_unique_type: the key is the words of unique_key[], the lookup happens under the lock
    text = " ; ".join(statements(func_body(src, "get_unique_type")))
    want = (r"PyObject \*key, \*y ; key = PyBytes_FromStringAndSize\(\(const char \*\)unique_key, keylength \* sizeof\(void \*\)\) ; "
            r"if \(key == NULL\) ; \{ ; Py_DECREF\(x\) ; return NULL ; \} ; LOCK_UNIQUE_CACHE\(\) ; "
            r"y = get_or_insert_unique_type\(x, key\) ; UNLOCK_UNIQUE_CACHE\(\) ; Py_DECREF\(key\) ; Py_DECREF\(x\) ; return y")
    if not re.fullmatch(want, text):
        raise CExprError("get_unique_type is not of the modelled shape")
    return out


def render(ex):
    def lst(items):
        return "[" + ", ".join("([%s], %s)" % (", ".join(c), a) for c, a in items) + "]"
    return """namespace CffiVerif.Generated.UniqueCacheSteps

inductive Cond | found | live | dead | hasKey
  deriving DecidableEq, Repr

inductive Act
  | lookup | resolve | delItem | returnExisting | newWeakref | store | setKey | returnNew
  | untrack | clearWeakrefs | removeDead | decrefKey | decrefItem | decrefStuff | free
  deriving DecidableEq, Repr

/-- a statement with the conditions of the `if`s around it -/
abbrev Step := List Cond × Act

def get_or_insert_unique_type : List Step := %s
def remove_dead_unique_reference : List Step := %s
def ctypedescr_dealloc : List Step := %s

end CffiVerif.Generated.UniqueCacheSteps
""" % (lst(ex["get_or_insert_unique_type"]), lst(ex["remove_dead_unique_reference"]), lst(ex["ctypedescr_dealloc"]))


def translate(repo, write_generated):
    ex = extract(repo)
    return write_generated("UniqueCacheSteps", render(ex),
                           "remove_dead_unique_reference %s; ctypedescr_dealloc %s"
                           % (ex["remove_dead_unique_reference"], [a for _, a in ex["ctypedescr_dealloc"]]))


if __name__ == "__main__":
    print(render(extract(sys.argv[1] if len(sys.argv) > 1 else "/repo")))
