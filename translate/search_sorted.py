"""Translator for C25: re-extracts the loop of `search_sorted` (/repo/src/c/parse_c_type.c) -- loop
condition, midpoint, the 'found' test, the 'go left' test and the two interval updates -- into
lean/CffiVerif/Generated/SearchSortedExprs.lean.  The loop *structure* (while / if / else if / else) is
checked textually and hand-modelled in Model/Search.lean; every expression in it is regenerated here."""
import os
import re
import sys

sys.path.insert(0, os.path.dirname(os.path.abspath(__file__)))
import cexpr
from cexpr import CExprError, NatEmitter, parse

ENV = {"left": ("left", "nat"), "right": ("right", "nat"), "middle": ("middle", "nat"),
       "diff": ("diff", "int"), "src_at_len": ("srcAtLen", "int")}


def generate(repo):
    src = open(os.path.join(repo, "src/c/parse_c_type.c")).read()
    m = re.search(r"static int search_sorted\([^)]*\)\s*\{(.*?)\n\}", src, re.S)
    if not m:
        raise CExprError("search_sorted not found")
    body = cexpr.strip_c_comments(m.group(1))
    flat = re.sub(r"\s+", " ", body)
    shape = re.search(
        r"int left = 0, right = array_len;.*?"
        r"while \((?P<loop>[^{}]*?)\) \{ "
        r"int middle = (?P<mid>[^;]*); "
        r"const char \*src = [^;]*; "
        r"int diff = strncmp\(src, search, search_len\); "
        r"if \((?P<found>[^{}]*?)\) return middle; "
        r"else if \((?P<goleft>[^{}]*?)\) right = (?P<newright>[^;]*); "
        r"else left = (?P<newleft>[^;]*); "
        r"\} return -1;", flat)
    if not shape:
        raise CExprError("search_sorted no longer has the modelled shape: %r" % flat[:400])
    g = {k: v.strip() for k, v in shape.groupdict().items()}
    found_txt = g["found"]
    if "src[search_len]" not in found_txt or "'\\0'" not in found_txt:
        raise CExprError("found-test does not look at src[search_len] == '\\0': %r" % found_txt)
    found_sub = found_txt.replace("src[search_len]", "src_at_len").replace("'\\0'", "0")
    em = NatEmitter(ENV)
    out = ["set_option linter.unusedVariables false", "",
           "namespace CffiVerif.Generated.SearchSorted", ""]

    def d(name, params, ty, text, term):
        out.append("/-- `%s` -/\ndef %s %s : %s :=\n  %s\n" % (text, name, params, ty, term))

    d("loopCond", "(left right : Nat)", "Bool", g["loop"], em.cond(parse(g["loop"])))
    d("middleOf", "(left right : Nat)", "Nat", g["mid"], em.term(parse(g["mid"]))[0])
    d("foundCond", "(diff srcAtLen : Int)", "Bool", found_txt, em.cond(parse(found_sub)))
    d("goLeftCond", "(diff : Int)", "Bool", g["goleft"], em.cond(parse(g["goleft"])))
    d("newRight", "(middle : Nat)", "Nat", "right = " + g["newright"], em.term(parse(g["newright"]))[0])
    d("newLeft", "(middle : Nat)", "Nat", "left = " + g["newleft"], em.term(parse(g["newleft"]))[0])
    out.append("end CffiVerif.Generated.SearchSorted")
    return "\n".join(out) + "\n", g


def translator():
    import common
    text, g = generate(common.REPO)
    return common.write_generated("SearchSortedExprs", text, g)


if __name__ == "__main__":
    print(generate(sys.argv[1] if len(sys.argv) > 1 else "/repo")[0])
