"""Translators for C06 (primitive type facts).

`extract_all(repo)` re-reads, on every check run, the places of the cffi source
that say what a primitive type name *is*:

  src/c/_cffi_backend.c     ENUM_PRIMITIVE_TYPES (EPTYPE/EPTYPE2 list of new_primitive_type),
                            the descr_s initialiser (size = sizeof, align = offsetof in a
                            {char; T} struct), the libffi size switches, the
                            CT_PRIMITIVE_FITS_LONG rule, the typedefs of the cffi_* C types
  src/c/realize_c_type.c    primitive_name[] of build_primitive_type
  src/cffi/parse_c_type.h   #define _CFFI_PRIM_* / _CFFI__NUM_PRIM / _CFFI__UNKNOWN_*
  src/cffi/cffi_opcode.py   PRIM_* / _NUM_PRIM / _UNKNOWN_* / PRIMITIVE_TO_INDEX        (ast)
  src/cffi/model.py         PrimitiveType.ALL_PRIMITIVE_TYPES                             (ast)
  src/c/parse_c_type.c      the arms of search_standard_typename, the keyword memcmps of
                            next_token, the specifier tables of parse_complete
  src/cffi/commontypes.py   COMMON_TYPES[...] = '...' assignments + the `_t` loop          (ast)
  src/c/commontypes.c       common_simple_types[] after preprocessing with gcc -E

and writes them as Lean lists into CffiVerif/Generated/Primitives.lean.
`platform_facts(...)` compiles and runs a C program that prints, for every
primitive name (as the C type that name denotes) and for every C type the
backend's list uses, sizeof / _Alignof / offsetof in {char; T} / gcc's type
class / (T)-1 < 0 / (T)-1 / min / max; written to Generated/Platform.lean.

Every extractor raises ExtractError when its extraction point is missing or has
an unexpected shape; nothing ever falls back to a previous table.
"""
import ast
import os
import re
import subprocess
import sys
import sysconfig

HERE = os.path.dirname(os.path.abspath(__file__))
sys.path.insert(0, os.path.join(os.path.dirname(HERE), "harness"))


class ExtractError(Exception):
    pass


def need(cond, msg):
    if not cond:
        raise ExtractError(msg)


def read(repo, rel):
    path = os.path.join(repo, rel)
    need(os.path.exists(path), "source file missing: " + rel)
    return open(path, encoding="utf-8").read()


def strip_c_comments(src):
    """Remove /* */ and // comments (string literals are respected); newlines kept."""
    out, i, n = [], 0, len(src)
    while i < n:
        c = src[i]
        if c == '"' or c == "'":
            j = i + 1
            while j < n and src[j] != c:
                j += 2 if src[j] == "\\" else 1
            out.append(src[i:j + 1])
            i = j + 1
        elif src.startswith("/*", i):
            j = src.find("*/", i + 2)
            need(j >= 0, "unterminated comment")
            out.append("\n" * src.count("\n", i, j))
            i = j + 2
        elif src.startswith("//", i):
            j = src.find("\n", i)
            i = n if j < 0 else j
        else:
            out.append(c)
            i += 1
    return "".join(out)


def function_body(src, header_re, what):
    """Text between the braces of the (unique) function whose header matches."""
    ms = list(re.finditer(header_re, src))
    need(len(ms) == 1, "%s: expected exactly one definition, found %d" % (what, len(ms)))
    i = src.find("{", ms[0].end() - 1)
    need(i >= 0, what + ": no body")
    depth, j = 0, i
    while j < len(src):
        c = src[j]
        if c == '"' or c == "'":
            k = j + 1
            while k < len(src) and src[k] != c:
                k += 2 if src[k] == "\\" else 1
            j = k + 1
            continue
        if c == "{":
            depth += 1
        elif c == "}":
            depth -= 1
            if depth == 0:
                return src[i + 1:j]
        j += 1
    raise ExtractError(what + ": unbalanced braces")


# ----------------------------------------------------------------------------
# src/c/_cffi_backend.c

FLAG_COND = re.compile(r"^\(\(\(\s*(\w+)\s*\)\s*-\s*1\s*\)\s*>\s*0\s*\?\s*0\s*:\s*(CT_\w+)\s*\)$")


def macro_text(src, name):
    """Replacement text of every `#define name` (continuation lines joined)."""
    res = []
    for m in re.finditer(r"^[ \t]*#[ \t]*define[ \t]+%s\b(?!\()" % re.escape(name), src, re.M):
        j = m.end()
        parts = []
        while True:
            k = src.find("\n", j)
            k = len(src) if k < 0 else k
            line = src[j:k]
            if line.rstrip().endswith("\\"):
                parts.append(line.rstrip()[:-1])
                j = k + 1
            else:
                parts.append(line)
                break
        res.append((m.start(), " ".join(parts)))
    return res


def split_top(s, sep):
    parts, depth, cur, i = [], 0, [], 0
    while i < len(s):
        c = s[i]
        if c == '"':
            j = i + 1
            while j < len(s) and s[j] != '"':
                j += 2 if s[j] == "\\" else 1
            cur.append(s[i:j + 1])
            i = j + 1
            continue
        if c in "([":
            depth += 1
        elif c in ")]":
            depth -= 1
        if c == sep and depth == 0:
            parts.append("".join(cur))
            cur = []
        else:
            cur.append(c)
        i += 1
    parts.append("".join(cur))
    return [p.strip() for p in parts]


def parse_eptype_list(text, wchar_text, what):
    """Sequence of EPTYPE(...) / EPTYPE2(...) / ENUM_PRIMITIVE_TYPES_WCHAR items."""
    items, i = [], 0
    text = strip_c_comments(text)
    while True:
        while i < len(text) and text[i].isspace():
            i += 1
        if i >= len(text):
            break
        m = re.compile(r"[A-Za-z_]\w*").match(text, i)
        need(m, "%s: unexpected text %r" % (what, text[i:i + 30]))
        word = m.group(0)
        i = m.end()
        if word == "ENUM_PRIMITIVE_TYPES_WCHAR":
            need(wchar_text is not None, what + ": nested ENUM_PRIMITIVE_TYPES_WCHAR")
            items += parse_eptype_list(wchar_text, None, "ENUM_PRIMITIVE_TYPES_WCHAR")
            continue
        need(word in ("EPTYPE", "EPTYPE2"), "%s: unexpected item %r" % (what, word))
        while i < len(text) and text[i].isspace():
            i += 1
        need(i < len(text) and text[i] == "(", "%s: %s without arguments" % (what, word))
        depth, j = 0, i
        while j < len(text):
            if text[j] == "(":
                depth += 1
            elif text[j] == ")":
                depth -= 1
                if depth == 0:
                    break
            j += 1
        need(depth == 0 and j < len(text), what + ": unbalanced parentheses")
        args = split_top(text[i + 1:j], ",")
        i = j + 1
        if word == "EPTYPE":
            need(len(args) == 3, "%s: EPTYPE takes 3 arguments: %r" % (what, args))
            code, ctype, flags = args
            ctype = " ".join(ctype.split())
            name = ctype                      # `#typename`
        else:
            need(len(args) == 4, "%s: EPTYPE2 takes 4 arguments: %r" % (what, args))
            code, name, ctype, flags = args
            need(re.fullmatch(r'"[^"\\]*"', name), "%s: export name is not a plain string: %r" % (what, name))
            name = name[1:-1]
            ctype = " ".join(ctype.split())
        need(re.fullmatch(r"\w+", code), "%s: bad code %r" % (what, code))
        need(re.fullmatch(r"[\w ]+", ctype), "%s: bad C type %r" % (what, ctype))
        fl, cond = [], None
        for part in split_top(flags, "|"):
            part = " ".join(part.split())
            if re.fullmatch(r"CT_\w+", part):
                fl.append(part)
                continue
            m = FLAG_COND.match(part)
            need(m is not None, "%s: flag expression of %s not understood: %r" % (what, name, part))
            need(cond is None, "%s: two conditional flags for %s" % (what, name))
            cond = (m.group(1), m.group(2))
        need(fl, "%s: no flags for %s" % (what, name))
        items.append({"code": code, "name": name, "ctype": ctype, "flags": fl, "cond": cond})
    return items


def norm_ws(s):
    return " ".join(s.split())


def extract_backend(repo):
    src = strip_c_comments(read(repo, "src/c/_cffi_backend.c"))
    body = function_body(src, r"\bstatic\s+PyObject\s*\*\s*new_primitive_type\s*\(\s*const\s+char\s*\*\s*name\s*\)\s*\{",
                         "new_primitive_type")
    main = macro_text(body, "ENUM_PRIMITIVE_TYPES")
    need(len(main) == 1, "ENUM_PRIMITIVE_TYPES: expected one #define, found %d" % len(main))
    wch = macro_text(body, "ENUM_PRIMITIVE_TYPES_WCHAR")
    need(len(wch) == 2, "ENUM_PRIMITIVE_TYPES_WCHAR: expected two #defines (#ifdef HAVE_WCHAR_H / #else)")
    need(re.search(r"#\s*ifdef\s+HAVE_WCHAR_H\s*\n\s*#\s*define\s+ENUM_PRIMITIVE_TYPES_WCHAR\b", body),
         "ENUM_PRIMITIVE_TYPES_WCHAR is not defined under #ifdef HAVE_WCHAR_H")
    need(strip_c_comments(wch[1][1]).strip() == "", "the #else definition of ENUM_PRIMITIVE_TYPES_WCHAR is not empty")
    entries = parse_eptype_list(main[0][1], wch[0][1], "ENUM_PRIMITIVE_TYPES")
    need(len(entries) >= 10, "ENUM_PRIMITIVE_TYPES: only %d entries" % len(entries))

    nb = norm_ws(re.sub(r"\\[ \t]*\n", " ", body))
    # the meaning of the columns: shapes the model relies on
    need("#define EPTYPE(code, typename, flags) EPTYPE2(code, #typename, typename, flags)" in nb,
         "EPTYPE is no longer EPTYPE2(code, #typename, typename, flags)")
    need("#define EPTYPE2(code, export_name, typename, flags) struct aligncheck_##code { char x; typename y; };" in nb,
         "aligncheck struct definition changed")
    need("static const struct descr_s { const char *name; int size, align, flags; } types[] = { "
         "#define EPTYPE2(code, export_name, typename, flags) { export_name, sizeof(typename), "
         "offsetof(struct aligncheck_##code, y), flags }, ENUM_PRIMITIVE_TYPES" in nb,
         "descr_s initialiser (name, sizeof, offsetof, flags) changed")
    need("if (strcmp(name, ptypes->name) == 0) break;" in nb, "lookup loop of new_primitive_type changed")
    need("td->ct_size = ptypes->size; td->ct_length = ptypes->align; td->ct_extra = ffitype; td->ct_flags = ptypes->flags;" in nb,
         "ct_size/ct_length/ct_flags assignments changed")

    # CT_PRIMITIVE_FITS_LONG rule
    m = re.search(r"td->ct_flags = ptypes->flags; (.*?) td->ct_name_position", nb)
    need(m, "FITS_LONG block not found")
    blk = m.group(1)
    rule = re.compile(r"(?:else )?if \(td->ct_flags & (\(?[\w |]+\)?)\) \{ "
                      r"if \(td->ct_size (<=|<|>=|>|==|!=) \(Py_ssize_t\)sizeof\((\w[\w ]*)\)\) "
                      r"td->ct_flags \|= (CT_\w+); \} ?")
    rules, pos = [], 0
    while pos < len(blk):
        mm = rule.match(blk, pos)
        need(mm, "FITS_LONG block has an unexpected shape near %r" % blk[pos:pos + 60])
        mask = [x.strip() for x in mm.group(1).strip("()").split("|")]
        need(all(re.fullmatch(r"CT_\w+", x) for x in mask), "FITS_LONG mask not understood")
        need(mm.group(4) == "CT_PRIMITIVE_FITS_LONG", "FITS_LONG block sets another flag")
        rules.append({"mask": mask, "op": mm.group(2), "than": mm.group(3)})
        pos = mm.end()
    need(rules, "FITS_LONG block empty")

    # libffi size switches
    def sizes_of(prefix_re, what):
        m = re.search(prefix_re + r" switch \(ptypes->size\) \{ ((?:case \d+: ffitype = &ffi_type_\w+; break; )+)"
                                  r"default: goto bad_ffi_type; \}", nb)
        need(m, what + ": size switch not found")
        return [int(x) for x in re.findall(r"case (\d+):", m.group(1))]
    signed_sizes = sizes_of(r"if \(ptypes->flags & CT_PRIMITIVE_SIGNED\) \{", "signed")
    other_sizes = sizes_of(r"else \{", "unsigned/char")
    m = re.search(r"else if \(ptypes->flags & CT_PRIMITIVE_FLOAT\) \{ (.*?) else goto bad_ffi_type; \}", nb)
    need(m, "float branch of new_primitive_type not found")
    float_names = re.findall(r'strcmp\(ptypes->name, "([^"]+)"\) == 0', m.group(1))
    need(float_names, "float branch: no names")
    need(re.search(r"else if \(ptypes->flags & CT_PRIMITIVE_COMPLEX\) \{ ffitype = NULL; \}", nb),
         "complex branch of new_primitive_type changed")

    # typedefs of the cffi_* C types used in the list
    typedefs = []
    helper = read(repo, "src/c/wchar_helper_3.h")
    for e in entries:
        t = e["ctype"]
        if not t.startswith("cffi_"):
            continue
        found = []
        for text in (src, helper):
            for m in re.finditer(r"^typedef\s+([\w ]+?)\s+%s\s*((?:\[\d+\])?)\s*;" % re.escape(t), text, re.M):
                found.append("typedef %s %s%s;" % (norm_ws(m.group(1)), t, m.group(2)))
        need(len(set(found)) == 1, "typedef of %s: expected one definition, found %r" % (t, found))
        typedefs.append((t, found[0]))
    return {"entries": entries, "fits_long": rules, "signed_sizes": signed_sizes, "other_sizes": other_sizes,
            "float_names": float_names, "typedefs": typedefs}


# ----------------------------------------------------------------------------
# src/c/realize_c_type.c

def extract_primitive_name(repo):
    src = strip_c_comments(read(repo, "src/c/realize_c_type.c"))
    body = function_body(src, r"\bstatic\s+PyObject\s*\*\s*build_primitive_type\s*\(\s*int\s+num\s*\)\s*\{",
                         "build_primitive_type")
    m = re.search(r"static\s+const\s+char\s*\*\s*primitive_name\s*\[\s*\]\s*=\s*\{(.*?)\}\s*;", body, re.S)
    need(m, "primitive_name[] initialiser not found")
    items = [x.strip() for x in m.group(1).split(",")]
    if items and items[-1] == "":
        items.pop()
    out = []
    for it in items:
        if it == "NULL":
            out.append(None)
        else:
            need(re.fullmatch(r'"[^"\\]*"', it), "primitive_name[]: unexpected element %r" % it)
            out.append(it[1:-1])
    need(len(out) >= 10, "primitive_name[]: only %d entries" % len(out))
    nb = norm_ws(body)
    need("else if (primitive_in_range(num) && primitive_name[num] != NULL) { x = new_primitive_type(primitive_name[num]); }" in nb,
         "build_primitive_type no longer calls new_primitive_type(primitive_name[num])")
    need("if (num == _CFFI_PRIM_VOID) { x = new_void_type(); }" in nb, "void case of build_primitive_type changed")
    need(re.search(r"#define primitive_in_range\(num\) \(\(num\) >= 0 && \(num\) < _CFFI__NUM_PRIM\)", norm_ws(src)),
         "primitive_in_range changed")
    return out


# ----------------------------------------------------------------------------
# src/cffi/parse_c_type.h

def extract_cffi_prim_defines(repo):
    src = read(repo, "src/cffi/parse_c_type.h")
    prims, special = [], {}
    for line in src.split("\n"):
        if not re.match(r"\s*#\s*define\s+_CFFI__?(PRIM|NUM_PRIM|UNKNOWN)", line):
            continue
        m = re.fullmatch(r"\s*#\s*define\s+_CFFI_PRIM_(\w+)\s+(\d+)\s*", line)
        if m:
            prims.append((m.group(1), int(m.group(2))))
            continue
        m = re.fullmatch(r"\s*#\s*define\s+_CFFI__(NUM_PRIM|UNKNOWN_\w+)\s+\(?\s*(-?\d+)\s*\)?\s*", line)
        need(m, "parse_c_type.h: #define not understood: %r" % line)
        need(m.group(1) not in special, "parse_c_type.h: %s defined twice" % m.group(1))
        special[m.group(1)] = int(m.group(2))
    need(len(prims) >= 10, "parse_c_type.h: only %d _CFFI_PRIM_ defines" % len(prims))
    for k in ("NUM_PRIM", "UNKNOWN_PRIM", "UNKNOWN_FLOAT_PRIM", "UNKNOWN_LONG_DOUBLE"):
        need(k in special, "parse_c_type.h: _CFFI__%s not found" % k)
    return prims, special


# ----------------------------------------------------------------------------
# src/cffi/cffi_opcode.py, model.py, commontypes.py (ast; nothing is imported or executed)

def const_int(node):
    if isinstance(node, ast.Constant) and type(node.value) is int:
        return node.value
    if isinstance(node, ast.UnaryOp) and isinstance(node.op, ast.USub) and isinstance(node.operand, ast.Constant) \
            and type(node.operand.value) is int:
        return -node.operand.value
    return None


def extract_opcode_py(repo):
    tree = ast.parse(read(repo, "src/cffi/cffi_opcode.py"))
    prims, special, p2i = [], {}, None
    for node in tree.body:
        if not (isinstance(node, ast.Assign) and len(node.targets) == 1 and isinstance(node.targets[0], ast.Name)):
            continue
        name = node.targets[0].id
        if name.startswith("PRIM_"):
            v = const_int(node.value)
            need(v is not None, "cffi_opcode.py: %s is not an integer literal" % name)
            prims.append((name[5:], v))
        elif name in ("_NUM_PRIM", "_UNKNOWN_PRIM", "_UNKNOWN_FLOAT_PRIM", "_UNKNOWN_LONG_DOUBLE"):
            v = const_int(node.value)
            need(v is not None, "cffi_opcode.py: %s is not an integer literal" % name)
            need(name not in special, "cffi_opcode.py: %s assigned twice" % name)
            special[name[1:]] = v
        elif name == "PRIMITIVE_TO_INDEX":
            need(p2i is None, "cffi_opcode.py: PRIMITIVE_TO_INDEX assigned twice")
            need(isinstance(node.value, ast.Dict), "cffi_opcode.py: PRIMITIVE_TO_INDEX is not a dict display")
            p2i = []
            for k, v in zip(node.value.keys, node.value.values):
                need(isinstance(k, ast.Constant) and isinstance(k.value, str),
                     "PRIMITIVE_TO_INDEX: key is not a string literal")
                need(isinstance(v, ast.Name) and v.id.startswith("PRIM_"),
                     "PRIMITIVE_TO_INDEX[%r] is not a PRIM_ name" % k.value)
                p2i.append((k.value, v.id[5:]))
    need(len(prims) >= 10, "cffi_opcode.py: only %d PRIM_ assignments" % len(prims))
    need(p2i is not None and len(p2i) >= 10, "cffi_opcode.py: PRIMITIVE_TO_INDEX not found")
    for k in ("NUM_PRIM", "UNKNOWN_PRIM", "UNKNOWN_FLOAT_PRIM", "UNKNOWN_LONG_DOUBLE"):
        need(k in special, "cffi_opcode.py: _%s not found" % k)
    # anything that mutates these afterwards would make the table a lie
    src = read(repo, "src/cffi/cffi_opcode.py")
    need(len(re.findall(r"\bPRIMITIVE_TO_INDEX\b", src)) == 1, "cffi_opcode.py: PRIMITIVE_TO_INDEX is touched elsewhere")
    return prims, special, p2i


def extract_model_py(repo):
    src = read(repo, "src/cffi/model.py")
    tree = ast.parse(src)
    cls = [n for n in tree.body if isinstance(n, ast.ClassDef) and n.name == "PrimitiveType"]
    need(len(cls) == 1, "model.py: class PrimitiveType not found")
    tab = None
    for node in cls[0].body:
        if isinstance(node, ast.Assign) and len(node.targets) == 1 and isinstance(node.targets[0], ast.Name) \
                and node.targets[0].id == "ALL_PRIMITIVE_TYPES":
            need(tab is None, "model.py: ALL_PRIMITIVE_TYPES assigned twice")
            need(isinstance(node.value, ast.Dict), "model.py: ALL_PRIMITIVE_TYPES is not a dict display")
            tab = []
            for k, v in zip(node.value.keys, node.value.values):
                need(isinstance(k, ast.Constant) and isinstance(k.value, str), "ALL_PRIMITIVE_TYPES: key not a string")
                need(isinstance(v, ast.Constant) and isinstance(v.value, str) and len(v.value) == 1,
                     "ALL_PRIMITIVE_TYPES[%r]: kind is not a one-character string" % k.value)
                tab.append((k.value, v.value))
    need(tab is not None and len(tab) >= 10, "model.py: ALL_PRIMITIVE_TYPES not found")
    # the predicates that give the kind letters their meaning
    meths = {n.name: norm_ws(ast.unparse(n)) for n in cls[0].body if isinstance(n, ast.FunctionDef)}
    for meth, letter in (("is_char_type", "c"), ("is_integer_type", "i"), ("is_float_type", "f"), ("is_complex_type", "j")):
        need(meths.get(meth) == "def %s(self): return self.ALL_PRIMITIVE_TYPES[self.name] == '%s'" % (meth, letter),
             "model.py: PrimitiveType.%s no longer tests the kind letter %r" % (meth, letter))
    need(meths.get("build_backend_type") ==
         "def build_backend_type(self, ffi, finishlist): return global_cache(self, ffi, 'new_primitive_type', self.name)",
         "model.py: PrimitiveType.build_backend_type changed")
    return tab


def extract_commontypes_py(repo):
    tree = ast.parse(read(repo, "src/cffi/commontypes.py"))
    entries, loop = [], False
    for node in tree.body:
        if isinstance(node, ast.Assign) and len(node.targets) == 1 and isinstance(node.targets[0], ast.Subscript) \
                and isinstance(node.targets[0].value, ast.Name) and node.targets[0].value.id == "COMMON_TYPES":
            k = node.targets[0].slice
            need(isinstance(k, ast.Constant) and isinstance(k.value, str), "commontypes.py: COMMON_TYPES key not a string")
            if isinstance(node.value, ast.Constant) and isinstance(node.value.value, str):
                entries.append((k.value, node.value.value))
            else:
                need(k.value == "FILE", "commontypes.py: COMMON_TYPES[%r] is not a string" % k.value)
        if isinstance(node, ast.For):
            if norm_ws(ast.unparse(node)) == ("for _type in model.PrimitiveType.ALL_PRIMITIVE_TYPES: "
                                              "if _type.endswith('_t'): COMMON_TYPES[_type] = _type"):
                loop = True
    need(entries, "commontypes.py: no COMMON_TYPES['...'] = '...' assignment found")
    need(loop, "commontypes.py: the loop adding every `_t` primitive name to COMMON_TYPES changed")
    return entries


# ----------------------------------------------------------------------------
# src/c/parse_c_type.c

ARM = re.compile(r'if \(size == (\d+) && !memcmp\(p, "([^"\\]*)", ?(\d+)\)\) return _CFFI_PRIM_(\w+);')


def extract_standard_typename(repo):
    src = strip_c_comments(read(repo, "src/c/parse_c_type.c"))
    body = function_body(src, r"\bint\s+search_standard_typename\s*\(\s*const\s+char\s*\*\s*p\s*,\s*size_t\s+size\s*\)\s*\{",
                         "search_standard_typename")
    # one statement per element: split the normalised text on the tokens we know
    text = norm_ws(body)
    m = re.match(r"if \(size < (\d+) \|\| p\[size-(\d+)\] != '(.)' \|\| p\[size-(\d+)\] != '(.)'\) return -1; ", text)
    need(m, "search_standard_typename: the suffix guard changed")
    guard = {"min": int(m.group(1)), "suffix": sorted([(int(m.group(2)), m.group(3)), (int(m.group(4)), m.group(5))],
                                                       reverse=True)}
    pos = m.end()
    arms = []
    stack = []          # elements: ["switch", pos, current case char or None] / ["guard", n]
    tok = re.compile(
        r"(?P<switch>switch \(p\[(?P<spos>\d+)\]\) \{)|"
        r"(?P<case>case '(?P<ch>[^'\\])':)|"
        r"(?P<default>default:)|"
        r"(?P<arm>if \(size == \d+ && !memcmp\(p, \"[^\"\\]*\", ?\d+\)\) return _CFFI_PRIM_\w+;)|"
        r"(?P<guard>if \(size >= (?P<gmin>\d+)\) \{)|"
        r"(?P<brk>break;)|"
        r"(?P<close>\})|"
        r"(?P<ret>return -1;)")
    finished = False
    while pos < len(text):
        if text[pos] == " ":
            pos += 1
            continue
        m = tok.match(text, pos)
        need(m, "search_standard_typename: statement not understood near %r" % text[pos:pos + 70])
        need(not finished, "search_standard_typename: code after the final return")
        pos = m.end()
        if m.group("switch"):
            stack.append(["switch", int(m.group("spos")), "unset", set()])
        elif m.group("case"):
            need(stack and stack[-1][0] == "switch", "search_standard_typename: case outside a switch")
            need(stack[-1][2] in ("unset", "closed"), "search_standard_typename: case label without a preceding break (fall-through)")
            need(m.group("ch") not in stack[-1][3], "search_standard_typename: duplicate case label")
            stack[-1][3].add(m.group("ch"))
            stack[-1][2] = m.group("ch")
        elif m.group("default"):
            need(stack and stack[-1][0] == "switch" and stack[-1][2] in ("unset", "closed"),
                 "search_standard_typename: misplaced default")
            stack[-1][2] = None
        elif m.group("arm"):
            a = ARM.fullmatch(m.group("arm"))
            need(stack and stack[-1][0] in ("switch", "guard"), "search_standard_typename: arm outside a switch")
            disc, minsize = [], 0
            for el in stack:
                if el[0] == "switch":
                    need(el[2] not in ("unset", "closed", None), "search_standard_typename: arm not under a case label")
                    disc.append((el[1], el[2]))
                else:
                    minsize = max(minsize, el[1])
            need(stack[-1][0] == "switch", "search_standard_typename: arm directly inside a size guard")
            arms.append({"disc": disc, "minsize": minsize, "size": int(a.group(1)), "lit": a.group(2),
                         "cmplen": int(a.group(3)), "result": a.group(4)})
        elif m.group("guard"):
            need(stack and stack[-1][0] == "switch" and stack[-1][2] not in ("unset", "closed", None),
                 "search_standard_typename: misplaced size guard")
            stack.append(["guard", int(m.group("gmin"))])
        elif m.group("brk"):
            need(stack and stack[-1][0] == "switch" and stack[-1][2] not in ("unset", "closed"),
                 "search_standard_typename: misplaced break")
            stack[-1][2] = "closed"
        elif m.group("close"):
            need(stack, "search_standard_typename: unbalanced }")
            if stack[-1][0] == "switch":
                need(stack[-1][2] == "closed", "search_standard_typename: switch ends without break")
            stack.pop()
        elif m.group("ret"):
            need(not stack, "search_standard_typename: return -1 inside the switch")
            finished = True
    need(finished and not stack, "search_standard_typename: final return -1 not found")
    need(len(arms) >= 10, "search_standard_typename: only %d arms" % len(arms))
    # arms inside a guard must come after all plain arms of the same case (they do in the model: source order)
    return guard, arms


def extract_keywords(repo):
    src = strip_c_comments(read(repo, "src/c/parse_c_type.c"))
    body = function_body(src, r"\bstatic\s+void\s+next_token\s*\(\s*token_t\s*\*\s*tok\s*\)\s*\{", "next_token")
    m = re.search(r"switch\s*\(\s*\*p\s*\)\s*\{(.*)\}\s*$", body, re.S)
    need(m, "next_token: keyword switch not found")
    text = norm_ws(m.group(1))
    kws, pos, cur = [], 0, None
    tok = re.compile(r"(?P<case>case '(?P<ch>[^'\\])':)|"
                     r"(?P<kw>if \(tok->size == (?P<n>\d+) && !memcmp\(p, ?\"(?P<lit>[^\"\\]*)\", ?(?P<l>\d+)\)\) ?tok->kind = (?P<tok>TOK_\w+);)|"
                     r"(?P<brk>break;)")
    while pos < len(text):
        if text[pos] == " ":
            pos += 1
            continue
        mm = tok.match(text, pos)
        need(mm, "next_token: keyword switch not understood near %r" % text[pos:pos + 70])
        pos = mm.end()
        if mm.group("case"):
            need(cur is None, "next_token: fall-through in the keyword switch")
            cur = mm.group("ch")
        elif mm.group("brk"):
            need(cur is not None, "next_token: misplaced break")
            cur = None
        else:
            need(cur is not None, "next_token: keyword test outside a case")
            kws.append({"first": cur, "size": int(mm.group("n")), "lit": mm.group("lit"), "cmplen": int(mm.group("l")),
                        "tok": mm.group("tok")})
    need(cur is None and len(kws) >= 10, "next_token: keyword switch incomplete")
    return kws


def extract_specifiers(repo):
    """The specifier tables of parse_complete (which primitive a combination of
    short/long/signed/unsigned modifiers and a base keyword denotes)."""
    src = strip_c_comments(read(repo, "src/c/parse_c_type.c"))
    body = function_body(src, r"\bstatic\s+int\s+parse_complete\s*\(\s*token_t\s*\*\s*tok\s*\)\s*\{", "parse_complete")
    nb = norm_ws(body)

    # --- modifier loop (hand-modelled; its text is pinned)
    loop = ("modifiers_length = 0; modifiers_sign = 0; modifiers: switch (tok->kind) { "
            "case TOK_SHORT: if (modifiers_length != 0) return parse_error(tok, \"'short' after another 'short' or 'long'\"); "
            "modifiers_length--; next_token(tok); goto modifiers; "
            "case TOK_LONG: if (modifiers_length < 0) return parse_error(tok, \"'long' after 'short'\"); "
            "if (modifiers_length >= 2) return parse_error(tok, \"'long long long' is too long\"); "
            "modifiers_length++; next_token(tok); goto modifiers; "
            "case TOK_SIGNED: if (modifiers_sign) return parse_error(tok, \"multiple 'signed' or 'unsigned'\"); "
            "modifiers_sign++; next_token(tok); goto modifiers; "
            "case TOK_UNSIGNED: if (modifiers_sign) return parse_error(tok, \"multiple 'signed' or 'unsigned'\"); "
            "modifiers_sign--; next_token(tok); goto modifiers; default: break; }")
    need(loop in nb, "parse_complete: the modifier loop changed (hand-modelled in Model/Primitives.lean)")
    quals = ("qualifiers: switch (tok->kind) { case TOK_CONST: next_token(tok); goto qualifiers; "
             "case TOK_VOLATILE: next_token(tok); goto qualifiers; default: ; }")
    need(quals in nb, "parse_complete: the qualifier loop changed")

    # --- with modifiers
    m = re.search(r"if \(modifiers_length \|\| modifiers_sign\) \{ switch \(tok->kind\) \{ "
                  r"((?:case TOK_\w+: )+)return parse_error\(tok, \"invalid combination of types\"\); "
                  r"case TOK_DOUBLE: if \(modifiers_sign != 0 \|\| modifiers_length != 1\) "
                  r"return parse_error\(tok, \"invalid combination of types\"\); next_token\(tok\); "
                  r"t0 = _CFFI_PRIM_(\w+); break; "
                  r"case TOK_CHAR: if \(modifiers_length != 0\) return parse_error\(tok, \"invalid combination of types\"\); "
                  r"modifiers_length = (-?\d+); "
                  r"case TOK_INT: next_token\(tok\); "
                  r"default: if \(modifiers_sign >= 0\) switch \(modifiers_length\) \{ (.*?) \} "
                  r"else switch \(modifiers_length\) \{ (.*?) \} \} "
                  r"t1 = _CFFI_OP\(_CFFI_OP_PRIMITIVE, t0\); \}", nb)
    need(m, "parse_complete: the modifier/base-type switch changed shape")
    rejected = re.findall(r"case (TOK_\w+):", m.group(1))
    longdouble, charlen = m.group(2), int(m.group(3))

    def lentable(text, what):
        rows, default, pos = [], None, 0
        pat = re.compile(r"(?:case (-?\d+)|default): t0 = _CFFI_PRIM_(\w+); break; ?")
        while pos < len(text):
            mm = pat.match(text, pos)
            need(mm, "parse_complete: %s length table not understood near %r" % (what, text[pos:pos + 50]))
            pos = mm.end()
            if mm.group(1) is None:
                need(default is None, "parse_complete: two defaults in %s table" % what)
                default = mm.group(2)
            else:
                rows.append((int(mm.group(1)), mm.group(2)))
        need(rows and default is not None, "parse_complete: %s length table incomplete" % what)
        return rows, default
    signed_rows, signed_default = lentable(m.group(4) + " ", "signed")
    unsigned_rows, unsigned_default = lentable(m.group(5) + " ", "unsigned")

    # --- without modifiers
    m2 = re.search(r"else \{ switch \(tok->kind\) \{ (.*?) case TOK_IDENTIFIER: \{", nb)
    need(m2, "parse_complete: the bare keyword switch not found")
    bare, pos, text = [], 0, m2.group(1) + " "
    pat = re.compile(r"case (TOK_\w+): t1 = _CFFI_OP\(_CFFI_OP_PRIMITIVE, _CFFI_PRIM_(\w+)\); "
                     r"(?:t1complex = _CFFI_OP\(_CFFI_OP_PRIMITIVE, _CFFI_PRIM_(\w+)\); )?break; ?")
    while pos < len(text):
        mm = pat.match(text, pos)
        need(mm, "parse_complete: bare keyword switch not understood near %r" % text[pos:pos + 60])
        pos = mm.end()
        bare.append((mm.group(1), mm.group(2), mm.group(3)))
    need(bare, "parse_complete: bare keyword switch empty")
    ident = ("case TOK_IDENTIFIER: { const char *replacement; int n = search_in_typenames(tok->info->ctx, tok->p, tok->size); "
             "if (n >= 0) { t1 = _CFFI_OP(_CFFI_OP_TYPENAME, n); break; } "
             "n = search_standard_typename(tok->p, tok->size); "
             "if (n >= 0) { t1 = _CFFI_OP(_CFFI_OP_PRIMITIVE, n); break; } "
             "replacement = get_common_type(tok->p, tok->size); "
             "if (replacement != NULL) { n = parse_common_type_replacement(tok, replacement);")
    need(ident in nb, "parse_complete: the identifier case changed (typenames, standard names, common types)")
    cplx = ("next_token(tok); } if (tok->kind == TOK__COMPLEX) { if (t1complex == 0) "
            "return parse_error(tok, \"_Complex type combination unsupported\"); t1 = t1complex; next_token(tok); } "
            "return parse_sequel(tok, write_ds(tok, t1));")
    need(cplx in nb, "parse_complete: the _Complex suffix handling changed")
    need("t1complex = 0; if (modifiers_length || modifiers_sign)" in nb, "parse_complete: t1complex initialisation changed")
    return {"rejected": rejected, "longdouble": longdouble, "charlen": charlen,
            "signed": signed_rows, "signed_default": signed_default,
            "unsigned": unsigned_rows, "unsigned_default": unsigned_default, "bare": bare}


# ----------------------------------------------------------------------------
# src/c/commontypes.c  (through the preprocessor: the platform's #ifdef branch)

def extract_commontypes_c(repo):
    path = os.path.join(repo, "src/c/commontypes.c")
    need(os.path.exists(path), "source file missing: src/c/commontypes.c")
    r = subprocess.run(["gcc", "-E", "-P", path], stdout=subprocess.PIPE, stderr=subprocess.PIPE,
                       universal_newlines=True, timeout=120)
    need(r.returncode == 0, "gcc -E of commontypes.c failed: " + r.stderr[-500:])
    m = re.search(r"static\s+const\s+char\s*\*\s*common_simple_types\s*\[\s*\]\s*=\s*\{(.*?)\}\s*;", r.stdout, re.S)
    need(m, "common_simple_types[] not found")
    text = norm_ws(m.group(1)) + " "
    pat = re.compile(r'"([^"\\]*)" "\\0" "([^"\\]*)" ?, ?')
    pos, out = 0, []
    while pos < len(text):
        mm = pat.match(text, pos)
        need(mm, "common_simple_types[]: entry not understood near %r" % text[pos:pos + 60])
        out.append((mm.group(1), mm.group(2)))
        pos = mm.end()
    need(out, "common_simple_types[] empty")
    src = norm_ws(strip_c_comments(read(repo, "src/c/commontypes.c")))
    need("int index = search_sorted(common_simple_types, sizeof(const char *), num_common_simple_types, search, search_len); "
         "if (index < 0) return NULL; entry = common_simple_types[index]; return entry + strlen(entry) + 1;" in src,
         "get_common_type changed")
    return out


# ----------------------------------------------------------------------------
# everything together

def extract_all(repo):
    ex = {}
    ex["backend"] = extract_backend(repo)
    ex["primitive_name"] = extract_primitive_name(repo)
    ex["c_prims"], ex["c_special"] = extract_cffi_prim_defines(repo)
    ex["py_prims"], ex["py_special"], ex["p2i"] = extract_opcode_py(repo)
    ex["all_primitive_types"] = extract_model_py(repo)
    ex["std_guard"], ex["std_arms"] = extract_standard_typename(repo)
    ex["keywords"] = extract_keywords(repo)
    ex["spec"] = extract_specifiers(repo)
    ex["common_c"] = extract_commontypes_c(repo)
    ex["common_py"] = extract_commontypes_py(repo)
    return ex


# ----------------------------------------------------------------------------
# Lean emission

def lstr(s):
    need(all(32 <= ord(c) < 127 and c not in '"\\' for c in s), "string not plain ASCII: %r" % s)
    return '"%s"' % s


def lchar(c):
    need(len(c) == 1 and 32 <= ord(c) < 127 and c not in "'\\", "char not plain ASCII: %r" % c)
    return "'%s'" % c


def lint(i):
    return str(i) if i >= 0 else "(%d)" % i


def llist(items, indent="  "):
    if not items:
        return "[]"
    return "[\n" + ",\n".join(indent + it for it in items) + "]"


def lean_primitives(ex):
    b = ex["backend"]
    o = []
    o.append("""/-!
Tables that say what a primitive type name is, extracted from the cffi source
(see /verif/translate/primitives.py for the extraction points).  No table is
hand-edited; the C06 theorems (Props/C06.lean) are `decide`d over these lists.
-/
namespace CffiVerif.Generated.Primitives

/-- One `EPTYPE(code, typename, flags)` / `EPTYPE2(code, "name", typename, flags)` item:
`types[] = { name, sizeof(ctype), offsetof(struct {char x; ctype y;}, y), flags }`.
`condFlag = some (T, F)`: the flag expression contains `(((T)-1) > 0 ? 0 : F)`. -/
structure BackendEntry where
  code : String
  name : String
  ctype : String
  flags : List String
  condFlag : Option (String × String)
  deriving Repr, DecidableEq

/-- One `if (size == N && !memcmp(p, "lit", L)) return _CFFI_PRIM_<result>;` of
`search_standard_typename`, with the `case` labels (`p[pos] == ch`) and the
`size >= n` guard it sits under. -/
structure Arm where
  disc : List (Nat × Char)
  minSize : Nat
  size : Nat
  lit : String
  cmpLen : Nat
  result : String
  deriving Repr, DecidableEq

/-- One keyword test of `next_token`: `case '<first>': if (tok->size == size && !memcmp(p, "lit", cmpLen)) kind = tok`. -/
structure Keyword where
  first : Char
  size : Nat
  lit : String
  cmpLen : Nat
  tok : String
  deriving Repr, DecidableEq

/-- `if (ct_flags & (mask…)) { if (ct_size <op> sizeof(than)) ct_flags |= CT_PRIMITIVE_FITS_LONG; } else if …` -/
structure FitsRule where
  mask : List String
  op : String
  than : String
  deriving Repr, DecidableEq
""")
    o.append("/-- `ENUM_PRIMITIVE_TYPES` of `new_primitive_type` (src/c/_cffi_backend.c), in list order, with the\n"
             "`#ifdef HAVE_WCHAR_H` definition of `ENUM_PRIMITIVE_TYPES_WCHAR` expanded in place. -/")
    o.append("def backendTypes : List BackendEntry := " + llist([
        "{ code := %s, name := %s, ctype := %s, flags := [%s], condFlag := %s }" % (
            lstr(e["code"]), lstr(e["name"]), lstr(e["ctype"]), ", ".join(lstr(f) for f in e["flags"]),
            "none" if e["cond"] is None else "some (%s, %s)" % (lstr(e["cond"][0]), lstr(e["cond"][1])))
        for e in b["entries"]]))
    o.append("example : backendTypes.length = %d := by decide\n" % len(b["entries"]))
    o.append("/-- The `CT_PRIMITIVE_FITS_LONG` rule at the end of `new_primitive_type`, in `if / else if` order. -/")
    o.append("def fitsLongRules : List FitsRule := " + llist([
        "{ mask := [%s], op := %s, than := %s }" % (", ".join(lstr(x) for x in r["mask"]), lstr(r["op"]), lstr(r["than"]))
        for r in b["fits_long"]]))
    o.append("\n/-- `case N:` labels of the libffi type switch for `CT_PRIMITIVE_SIGNED` entries. -/")
    o.append("def ffiSignedSizes : List Nat := [%s]" % ", ".join(map(str, b["signed_sizes"])))
    o.append("/-- … and of the final `else` (unsigned, char, bool). -/")
    o.append("def ffiOtherSizes : List Nat := [%s]" % ", ".join(map(str, b["other_sizes"])))
    o.append("/-- Names the `CT_PRIMITIVE_FLOAT` branch knows (anything else: NotImplementedError). -/")
    o.append("def ffiFloatNames : List String := [%s]" % ", ".join(lstr(x) for x in b["float_names"]))
    o.append("/-- typedefs of the `cffi_*` C types used in the list (documentation; the platform program compiles them). -/")
    o.append("def backendTypedefs : List (String × String) := " + llist(
        ["(%s, %s)" % (lstr(t), lstr(d)) for t, d in b["typedefs"]]))

    o.append("\n/-- `primitive_name[]` of `build_primitive_type` (src/c/realize_c_type.c); `NULL` = `none`. -/")
    o.append("def primitiveName : List (Option String) := " + llist(
        ["none" if x is None else "some " + lstr(x) for x in ex["primitive_name"]]))
    o.append("example : primitiveName.length = %d := by decide\n" % len(ex["primitive_name"]))

    o.append("/-- `#define _CFFI_PRIM_<suffix> <n>` of src/cffi/parse_c_type.h, in file order. -/")
    o.append("def cPrimDefs : List (String × Int) := " + llist(["(%s, %s)" % (lstr(s), lint(v)) for s, v in ex["c_prims"]]))
    o.append("example : cPrimDefs.length = %d := by decide" % len(ex["c_prims"]))
    cs = ex["c_special"]
    o.append("def cNumPrim : Int := %s" % lint(cs["NUM_PRIM"]))
    o.append("/-- `_CFFI__UNKNOWN_PRIM`, `_CFFI__UNKNOWN_FLOAT_PRIM`, `_CFFI__UNKNOWN_LONG_DOUBLE`. -/")
    o.append("def cUnknown : List Int := [%s, %s, %s]\n" % (lint(cs["UNKNOWN_PRIM"]), lint(cs["UNKNOWN_FLOAT_PRIM"]),
                                                           lint(cs["UNKNOWN_LONG_DOUBLE"])))

    o.append("/-- `PRIM_<suffix> = <n>` of src/cffi/cffi_opcode.py, in file order. -/")
    o.append("def pyPrimDefs : List (String × Int) := " + llist(["(%s, %s)" % (lstr(s), lint(v)) for s, v in ex["py_prims"]]))
    o.append("example : pyPrimDefs.length = %d := by decide" % len(ex["py_prims"]))
    ps = ex["py_special"]
    o.append("def pyNumPrim : Int := %s" % lint(ps["NUM_PRIM"]))
    o.append("def pyUnknown : List Int := [%s, %s, %s]\n" % (lint(ps["UNKNOWN_PRIM"]), lint(ps["UNKNOWN_FLOAT_PRIM"]),
                                                            lint(ps["UNKNOWN_LONG_DOUBLE"])))
    o.append("/-- `PRIMITIVE_TO_INDEX` of cffi_opcode.py: (type name, suffix of the `PRIM_` constant), dict display order. -/")
    o.append("def primitiveToIndex : List (String × String) := " + llist(
        ["(%s, %s)" % (lstr(k), lstr(v)) for k, v in ex["p2i"]]))
    o.append("example : primitiveToIndex.length = %d := by decide\n" % len(ex["p2i"]))

    o.append("/-- `PrimitiveType.ALL_PRIMITIVE_TYPES` of src/cffi/model.py: (name, kind letter c/i/f/j). -/")
    o.append("def allPrimitiveTypes : List (String × Char) := " + llist(
        ["(%s, %s)" % (lstr(k), lchar(v)) for k, v in ex["all_primitive_types"]]))
    o.append("example : allPrimitiveTypes.length = %d := by decide\n" % len(ex["all_primitive_types"]))

    g = ex["std_guard"]
    o.append("/-- `if (size < stdMinSize || p[size-2] != '_' || p[size-1] != 't') return -1;` — (distance from the end, char). -/")
    o.append("def stdMinSize : Nat := %d" % g["min"])
    o.append("def stdSuffix : List (Nat × Char) := [%s]" % ", ".join("(%d, %s)" % (d, lchar(c)) for d, c in g["suffix"]))
    o.append("/-- The arms of `search_standard_typename` (src/c/parse_c_type.c), in source order. -/")
    o.append("def stdArms : List Arm := " + llist([
        "{ disc := [%s], minSize := %d, size := %d, lit := %s, cmpLen := %d, result := %s }" % (
            ", ".join("(%d, %s)" % (p, lchar(c)) for p, c in a["disc"]), a["minsize"], a["size"], lstr(a["lit"]),
            a["cmplen"], lstr(a["result"])) for a in ex["std_arms"]]))
    o.append("example : stdArms.length = %d := by decide\n" % len(ex["std_arms"]))

    o.append("/-- Keyword tests of `next_token`. -/")
    o.append("def keywords : List Keyword := " + llist([
        "{ first := %s, size := %d, lit := %s, cmpLen := %d, tok := %s }" % (
            lchar(k["first"]), k["size"], lstr(k["lit"]), k["cmplen"], lstr(k["tok"])) for k in ex["keywords"]]))
    o.append("example : keywords.length = %d := by decide\n" % len(ex["keywords"]))

    sp = ex["spec"]
    o.append("/-- `parse_complete`, with modifiers: token kinds answered \"invalid combination of types\". -/")
    o.append("def specRejected : List String := [%s]" % ", ".join(lstr(x) for x in sp["rejected"]))
    o.append("/-- `case TOK_DOUBLE` with `sign == 0 && length == 1`. -/")
    o.append("def specLongDouble : String := %s" % lstr(sp["longdouble"]))
    o.append("/-- `case TOK_CHAR: … modifiers_length = <this>`. -/")
    o.append("def specCharLength : Int := %s" % lint(sp["charlen"]))
    o.append("/-- `switch (modifiers_length)` under `modifiers_sign >= 0`: (length, _CFFI_PRIM_ suffix), and its default. -/")
    o.append("def specSigned : List (Int × String) := [%s]" % ", ".join("(%s, %s)" % (lint(n), lstr(s)) for n, s in sp["signed"]))
    o.append("def specSignedDefault : String := %s" % lstr(sp["signed_default"]))
    o.append("/-- … under `modifiers_sign < 0`. -/")
    o.append("def specUnsigned : List (Int × String) := [%s]" % ", ".join("(%s, %s)" % (lint(n), lstr(s)) for n, s in sp["unsigned"]))
    o.append("def specUnsignedDefault : String := %s" % lstr(sp["unsigned_default"]))
    o.append("/-- Without modifiers: (token kind, _CFFI_PRIM_ suffix, suffix when followed by `_Complex`). -/")
    o.append("def specBare : List (String × String × Option String) := " + llist([
        "(%s, %s, %s)" % (lstr(t), lstr(p), "none" if c is None else "some " + lstr(c)) for t, p, c in sp["bare"]]))

    o.append("\n/-- `common_simple_types[]` of src/c/commontypes.c after `gcc -E` (this platform's #ifdef branch). -/")
    o.append("def commonTypesC : List (String × String) := " + llist(
        ["(%s, %s)" % (lstr(k), lstr(v)) for k, v in ex["common_c"]]))
    o.append("/-- `COMMON_TYPES['…'] = '…'` assignments of src/cffi/commontypes.py (the module also adds every\n"
             "`_t` name of ALL_PRIMITIVE_TYPES as itself; the translator checks that loop is still there). -/")
    o.append("def commonTypesPy : List (String × String) := " + llist(
        ["(%s, %s)" % (lstr(k), lstr(v)) for k, v in ex["common_py"]]))
    o.append("\nend CffiVerif.Generated.Primitives\n")
    return "\n".join(o)


# ----------------------------------------------------------------------------
# the platform program

PLATFORM_C = r"""
#include <Python.h>
#include <stdio.h>
#include <stddef.h>
#include <stdint.h>
#include <limits.h>
#include <wchar.h>
#include <uchar.h>
#include <sys/types.h>
#ifndef HAVE_WCHAR_H
#error "HAVE_WCHAR_H is not defined: the backend list would not contain wchar_t"
#endif
%(typedefs)s

/* gcc's type classes: 1 integer (also char, _Bool), 8 real, 9 complex, 5 pointer (decayed array) */
#define CLS(T) __builtin_classify_type(*(T *)0)

#define SCALAR(tag, key, T) do {                                              \
    struct ac_ { char x; T y; };                                              \
    int cls = CLS(T);                                                         \
    long long mn = 0; unsigned long long mx = 0; long long m1 = 0; int k;     \
    if (cls == 1) {                                                           \
        for (k = 0; k <= 64; k++) {                                           \
            unsigned long long v = (k == 64) ? ~0ULL : ((1ULL << k) - 1);     \
            if ((__int128)(T)v == (__int128)v) mx = v;                        \
        }                                                                     \
        for (k = 0; k <= 63; k++) {                                           \
            long long w = (k == 63) ? LLONG_MIN : -(1LL << k);                \
            if ((__int128)(T)w == (__int128)w) mn = w;                        \
        }                                                                     \
        m1 = ((T)-1 < 0) ? (long long)(T)-1 : 0;                              \
    }                                                                         \
    printf("%%s|%%s|%%s|%%zu|%%zu|%%zu|%%d|%%d|", tag, key, #T, sizeof(T),        \
           (size_t)_Alignof(T), offsetof(struct ac_, y), cls, (int)((T)-1 < 0)); \
    if (cls == 1 && !((T)-1 < 0))                                             \
        printf("%%llu|%%lld|%%llu\n", (unsigned long long)(T)-1, mn, mx);        \
    else                                                                      \
        printf("%%lld|%%lld|%%llu\n", m1, mn, mx);                               \
} while (0)

#define NONORD(tag, key, T) do {                                              \
    struct ac_ { char x; T y; };                                              \
    printf("%%s|%%s|%%s|%%zu|%%zu|%%zu|%%d|0|0|0|0\n", tag, key, #T, sizeof(T),   \
           (size_t)_Alignof(T), offsetof(struct ac_, y), CLS(T));             \
} while (0)

int main(void)
{
%(lines)s
    return 0;
}
"""


def c_spelling(name, common_py):
    """The C type a cffi primitive *name* denotes: itself, except the two complex
    names, whose C spelling is the key commontypes.py maps to them."""
    keys = [k for k, v in common_py if v == name and "_Complex" in k]
    if keys:
        need(len(keys) == 1, "two C spellings for " + name)
        return keys[0]
    return name


_PLATFORM_CACHE = {}


def platform_facts(ex, scratch):
    """Compile and run the fact program; returns {"name": {...}, "backend": {...}} of dicts."""
    import common
    names = [n for n, _ in ex["all_primitive_types"]]
    kinds = dict(ex["all_primitive_types"])
    lines = []
    for n in names:
        need(re.fullmatch(r"[\w ]+", n), "primitive name is not a plain identifier sequence: %r" % n)
        macro = "NONORD" if kinds[n] == "j" else "SCALAR"
        lines.append('    %s("N", "%s", %s);' % (macro, n, c_spelling(n, ex["common_py"])))
    seen = set()
    for e in ex["backend"]["entries"]:
        if e["ctype"] in seen:
            continue
        seen.add(e["ctype"])
        macro = "NONORD" if "CT_PRIMITIVE_COMPLEX" in e["flags"] else "SCALAR"
        lines.append('    %s("B", "%s", %s);' % (macro, e["ctype"], e["ctype"]))
        if e["cond"] and e["cond"][0] not in seen:
            seen.add(e["cond"][0])
            lines.append('    SCALAR("B", "%s", %s);' % (e["cond"][0], e["cond"][0]))
    for r in ex["backend"]["fits_long"]:
        if r["than"] not in seen:
            seen.add(r["than"])
            lines.append('    SCALAR("B", "%s", %s);' % (r["than"], r["than"]))
    prog = PLATFORM_C % {"typedefs": "\n".join(d for _, d in ex["backend"]["typedefs"]), "lines": "\n".join(lines)}
    key = prog
    if key in _PLATFORM_CACHE:
        return _PLATFORM_CACHE[key]
    cfile = os.path.join(scratch, "c06_platform.c")
    exe = os.path.join(scratch, "c06_platform")
    with open(cfile, "w") as f:
        f.write(prog)
    common.compile_prog(cfile, exe, extra=["-I" + sysconfig.get_paths()["include"]])
    out = common.run_prog(exe)
    facts = {"N": {}, "B": {}}
    for line in out.strip().split("\n"):
        parts = line.split("|")
        if len(parts) != 11 or parts[0] not in ("N", "B"):
            raise common.InfraError("platform program printed an unexpected line: %r" % line)
        tag, k, ctype = parts[0], parts[1], parts[2]
        size, align, salign, cls, neg, m1, mn, mx = [int(x) for x in parts[3:]]
        facts[tag][k] = {"ctype": ctype, "size": size, "align": align, "salign": salign, "cls": cls,
                         "neg": bool(neg), "minus1": m1, "min": mn, "max": mx}
    if set(facts["N"]) != set(names):
        raise common.InfraError("platform program did not print every name")
    res = {"name": facts["N"], "backend": facts["B"], "order_n": names,
           "order_b": [k for k in facts["B"]]}
    _PLATFORM_CACHE[key] = res
    return res


def lean_platform(pf):
    o = ["""/-!
What gcc on this machine says about each primitive type: printed by a C program
compiled and run on every check (see /verif/translate/primitives.py).
`byName`: keyed by the cffi primitive name, for the C type that name denotes
(`ctype`); `byBackendType`: keyed by the C type the backend's list uses
(with the backend's own typedefs and Python.h).
`cls` is `__builtin_classify_type`: 1 integer (incl. char and _Bool), 8 real, 9 complex,
5 pointer (an array type, decayed).  `neg` is `(T)-1 < 0`; `minusOne` is `(T)-1`;
`min`/`max`: least/greatest integer that survives a round trip through `T`
(integer classes only; 0 otherwise).
-/
namespace CffiVerif.Generated.Platform

structure Fact where
  ctype : String
  size : Nat
  align : Nat
  structAlign : Nat
  cls : Nat
  neg : Bool
  minusOne : Int
  min : Int
  max : Int
  deriving Repr, DecidableEq
"""]

    def row(k, f):
        return "(%s, { ctype := %s, size := %d, align := %d, structAlign := %d, cls := %d, neg := %s, minusOne := %s, min := %s, max := %s })" % (
            lstr(k), lstr(f["ctype"]), f["size"], f["align"], f["salign"], f["cls"], "true" if f["neg"] else "false",
            lint(f["minus1"]), lint(f["min"]), lint(f["max"]))
    o.append("def byName : List (String × Fact) := " + llist([row(k, pf["name"][k]) for k in pf["order_n"]]))
    o.append("example : byName.length = %d := by decide\n" % len(pf["order_n"]))
    o.append("def byBackendType : List (String × Fact) := " + llist([row(k, pf["backend"][k]) for k in pf["order_b"]]))
    o.append("example : byBackendType.length = %d := by decide\n" % len(pf["order_b"]))
    o.append("end CffiVerif.Generated.Platform\n")
    return "\n".join(o)


# ----------------------------------------------------------------------------
# translator callables (for corr_C06.translators)

_EXTRACT_CACHE = {}


def extracted(repo):
    if repo not in _EXTRACT_CACHE:
        _EXTRACT_CACHE[repo] = extract_all(repo)
    return _EXTRACT_CACHE[repo]


def translate_primitives(repo):
    import common
    ex = extracted(repo)
    summary = ("%d backend entries, %d primitive_name[] slots, %d _CFFI_PRIM_, %d PRIM_, %d PRIMITIVE_TO_INDEX, "
               "%d ALL_PRIMITIVE_TYPES, %d search_standard_typename arms, %d keywords, %d+%d common types"
               % (len(ex["backend"]["entries"]), len(ex["primitive_name"]), len(ex["c_prims"]), len(ex["py_prims"]),
                  len(ex["p2i"]), len(ex["all_primitive_types"]), len(ex["std_arms"]), len(ex["keywords"]),
                  len(ex["common_c"]), len(ex["common_py"])))
    return common.write_generated("Primitives", lean_primitives(ex), summary)


def translate_platform(repo, scratch):
    import common
    ex = extracted(repo)
    pf = platform_facts(ex, scratch)
    summary = "gcc facts for %d primitive names and %d backend C types" % (len(pf["order_n"]), len(pf["order_b"]))
    return common.write_generated("Platform", lean_platform(pf), summary)


if __name__ == "__main__":
    import json
    import tempfile
    repo = sys.argv[1] if len(sys.argv) > 1 else "/repo"
    ex = extract_all(repo)
    print(lean_primitives(ex))
    with tempfile.TemporaryDirectory() as d:
        print(lean_platform(platform_facts(ex, d)))
