"""C30: re-extracts, from the working tree of /repo, the comparison tables of the
type-string tokenizer:

  * next_token():   `case 'c': if (tok->size == N && !memcmp(p, "kw", M)) tok->kind = TOK_K;`
  * search_standard_typename():  the guard `size < 6 || p[size-2] != '_' || p[size-1] != 't'`,
    `switch (p[4])`, the nested `if (size >= 12) switch (p[10])`, and every
    `if (size == N && !memcmp(p, "lit", M)) return _CFFI_PRIM_X;`
  * _ffi_bad_type(): the `length > 500` cut-off and the alloca size expression.

The Lean model (CffiVerif.Model.Tokenizer) is written over these tables, and the
bounds theorems are stated over them: a changed size/length in the C source is
re-checked by the kernel on the next run.  Raises when an extraction point is
not found or has an unexpected shape (never falls back to an old table).
"""
import os
import re

import common


def _function_body(src, header_re):
    m = re.search(header_re, src, re.M)
    if not m:
        raise ValueError("function header %r not found" % header_re)
    start = src.index("{", m.end() - 1)
    end = re.compile(r"^}", re.M).search(src, start)
    if not end:
        raise ValueError("end of function %r not found" % header_re)
    return src[start:end.end()]


def _bytes_list(s):
    return "[" + ", ".join(str(b) for b in s.encode("ascii")) + "]"


def extract(repo):
    src = open(os.path.join(repo, "src/c/parse_c_type.c")).read()
    hdr = open(os.path.join(repo, "src/cffi/parse_c_type.h")).read()
    prims = {m.group(1): int(m.group(2)) for m in re.finditer(r"^#define\s+(_CFFI_PRIM_\w+)\s+(\d+)\s*$", hdr, re.M)}

    # ---- keywords of next_token
    body = _function_body(src, r"^static void next_token\(token_t \*tok\)\s*$")
    sw = body.find("switch (*p) {")
    if sw < 0:
        raise ValueError("next_token: `switch (*p)` not found")
    kws = []
    case = None
    n_if = 0
    for line in body[sw:].split("\n")[1:]:
        s = line.strip()
        m = re.match(r"case '(.)':$", s)
        if m:
            case = m.group(1)
            continue
        if s == "break;":
            case = None
            continue
        if "memcmp" in s or "tok->kind" in s:
            m = re.match(r'if \(tok->size == (\d+) && !memcmp\(p,\s*"([^"\\]+)",\s*(\d+)\)\)\s*tok->kind = (TOK_\w+);$', s)
            if not m or case is None:
                raise ValueError("next_token: unexpected keyword line %r" % line)
            n_if += 1
            kws.append((case, int(m.group(1)), m.group(2), int(m.group(3)), m.group(4)))
        elif s in ("", "}", "{"):
            continue
        else:
            raise ValueError("next_token: unexpected line in the keyword switch: %r" % line)
    if len(kws) < 10:
        raise ValueError("next_token: only %d keyword comparisons found" % len(kws))

    # ---- search_standard_typename
    body = _function_body(src, r"^int search_standard_typename\(const char \*p, size_t size\)\s*$")
    m = re.search(r"if \(size < (\d+) \|\| p\[size-(\d+)\] != '(.)' \|\| p\[size-(\d+)\] != '(.)'\)\s*return -1;", body)
    if not m:
        raise ValueError("search_standard_typename: guard not found")
    min_size, o1, c1, o2, c2 = int(m.group(1)), int(m.group(2)), m.group(3), int(m.group(4)), m.group(5)
    lines = body[m.end():].split("\n")
    stack = []         # ["switch", idx, current case] / ["if", min size]
    idx1 = idx2 = min2 = outer2 = None
    e1, e2 = [], []
    after_nested = False
    for line in lines:
        s = line.strip()
        if not s or s in ("break;", "default:", "return -1;"):
            continue
        nsw = sum(1 for f in stack if f[0] == "switch")
        m = re.match(r"switch \(p\[(\d+)\]\) \{$", s)
        if m:
            if nsw == 0 and not stack and idx1 is None:
                idx1 = int(m.group(1))
            elif nsw == 1 and stack[-1][0] == "if" and idx2 is None:
                idx2 = int(m.group(1))
            else:
                raise ValueError("search_standard_typename: unexpected switch nesting")
            stack.append(["switch", int(m.group(1)), None])
            continue
        m = re.match(r"if \(size >= (\d+)\) \{$", s)
        if m:
            if nsw != 1 or stack[-1][0] != "switch" or stack[-1][2] is None or min2 is not None:
                raise ValueError("search_standard_typename: unexpected `if (size >= N)`")
            min2, outer2 = int(m.group(1)), stack[-1][2]
            stack.append(["if", min2])
            continue
        m = re.match(r"case '(.)':$", s)
        if m:
            if not stack or stack[-1][0] != "switch":
                raise ValueError("search_standard_typename: case outside switch")
            stack[-1][2] = m.group(1)
            if nsw == 1:
                after_nested = False
            continue
        m = re.match(r'if \(size == (\d+) && !memcmp\(p,\s*"([^"\\\\]+)",\s*(\d+)\)\) return (_CFFI_PRIM_\w+);$', s)
        if m:
            ent = (int(m.group(1)), m.group(2), int(m.group(3)), m.group(4))
            if ent[3] not in prims:
                raise ValueError("search_standard_typename: unknown %s" % ent[3])
            if not stack or stack[-1][0] != "switch" or stack[-1][2] is None:
                raise ValueError("search_standard_typename: comparison outside a case")
            if nsw == 1:
                if after_nested:
                    raise ValueError("search_standard_typename: comparison after the nested block of its case")
                e1.append((stack[-1][2],) + ent)
            else:
                e2.append((stack[-1][2],) + ent)
            continue
        if s == "}":
            if not stack:
                break              # end of the function
            f = stack.pop()
            if f[0] == "if":
                after_nested = True
            continue
        raise ValueError("search_standard_typename: unexpected line %r" % line)
    if stack:
        raise ValueError("search_standard_typename: unbalanced braces")
    if idx1 is None or idx2 is None or min2 is None or len(e1) < 20 or len(e2) < 5:
        raise ValueError("search_standard_typename: table has an unexpected shape (%d/%d entries)" % (len(e1), len(e2)))
    # the nested block must come last inside its case (the model evaluates it after the case's own entries)
    # ---- _ffi_bad_type
    fsrc = open(os.path.join(repo, "src/c/ffi_obj.c")).read()
    body = _function_body(fsrc, r"^static PyObject \*_ffi_bad_type\(struct _cffi_parse_info_s \*info,\s*$")
    m = re.search(r"if \(length > (\d+)\)", body)
    m2 = re.search(r"extra = alloca\(length \+ num_spaces \+ (\d+)\);", body)
    if not m or not m2:
        raise ValueError("_ffi_bad_type: cut-off or alloca expression not found")
    cutoff, slack = int(m.group(1)), int(m2.group(1))
    writes = len(re.findall(r"\*p\+\+ = ", body))
    return {"kws": kws, "min_size": min_size, "guard": (o1, c1, o2, c2), "idx1": idx1, "idx2": idx2,
            "min2": min2, "outer2": outer2, "e1": e1, "e2": e2, "prims": prims,
            "cutoff": cutoff, "slack": slack, "bad_type_stores": writes}


def lean_text(t):
    def rows(ents, fmt):
        out = []
        for i, e in enumerate(ents):
            sep = "," if i + 1 < len(ents) else ""
            out.append("  " + fmt(e) + sep)
        return "\n".join(out)
    o = []
    o.append("namespace CffiVerif.Generated.C30Tables\n")
    o.append("/-- next_token: (`case` char, `tok->size ==`, literal, memcmp length, TOK name). -/")
    o.append("def kwEntries : List (UInt8 × Nat × List UInt8 × Nat × String) := [")
    o.append(rows(t["kws"], lambda e: "(%d, %d, %s, %d, \"%s\")" % (ord(e[0]), e[1], _bytes_list(e[2]), e[3], e[4])))
    o.append("]\n")
    o.append("/-- search_standard_typename: `size < stdMinSize || p[size-o1] != c1 || p[size-o2] != c2`. -/")
    o.append("def stdMinSize : Nat := %d" % t["min_size"])
    o1, c1, o2, c2 = t["guard"]
    o.append("def stdGuard : Nat × UInt8 × Nat × UInt8 := (%d, %d, %d, %d)" % (o1, ord(c1), o2, ord(c2)))
    o.append("/-- `switch (p[stdIdx1])`; inside `case stdOuter2`: `if (size >= stdMinSize2) switch (p[stdIdx2])`. -/")
    o.append("def stdIdx1 : Nat := %d" % t["idx1"])
    o.append("def stdOuter2 : UInt8 := %d" % ord(t["outer2"]))
    o.append("def stdMinSize2 : Nat := %d" % t["min2"])
    o.append("def stdIdx2 : Nat := %d\n" % t["idx2"])
    o.append("/-- (`case` char, `size ==`, literal, memcmp length, _CFFI_PRIM number). -/")
    o.append("def stdEntries1 : List (UInt8 × Nat × List UInt8 × Nat × Nat) := [")
    o.append(rows(t["e1"], lambda e: "(%d, %d, %s, %d, %d)" % (ord(e[0]), e[1], _bytes_list(e[2]), e[3], t["prims"][e[4]])))
    o.append("]\n")
    o.append("def stdEntries2 : List (UInt8 × Nat × List UInt8 × Nat × Nat) := [")
    o.append(rows(t["e2"], lambda e: "(%d, %d, %s, %d, %d)" % (ord(e[0]), e[1], _bytes_list(e[2]), e[3], t["prims"][e[4]])))
    o.append("]\n")
    o.append("/-- _ffi_bad_type: `length > badTypeCutoff` gives no excerpt; `alloca(length + num_spaces + badTypeSlack)`;")
    o.append("the function body has `badTypeStores` single-byte stores `*p++ = …` (one of them inside the loop). -/")
    o.append("def badTypeCutoff : Nat := %d" % t["cutoff"])
    o.append("def badTypeSlack : Nat := %d" % t["slack"])
    o.append("def badTypeStores : Nat := %d\n" % t["bad_type_stores"])
    o.append("end CffiVerif.Generated.C30Tables\n")
    return "\n".join(o)


def translate():
    t = extract(common.REPO)
    summary = ("next_token: %d keyword comparisons; search_standard_typename: guard size<%d, p[%d], %d+%d comparisons "
               "(nested: size>=%d, p[%d]); _ffi_bad_type: cutoff %d, alloca slack %d"
               % (len(t["kws"]), t["min_size"], t["idx1"], len(t["e1"]), len(t["e2"]), t["min2"], t["idx2"],
                  t["cutoff"], t["slack"]))
    return common.write_generated("C30Tables", lean_text(t), summary)


if __name__ == "__main__":
    print(lean_text(extract(common.REPO)))
