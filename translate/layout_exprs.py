"""Translator for C01: re-extracts the arithmetic and the conditions of the x86-64 / gcc path of
`b_complete_struct_or_union_lock_held` (/repo/src/c/_cffi_backend.c) into
lean/CffiVerif/Generated/LayoutExprs.lean.

The *control structure* of the function (order of the statements, which branch an expression lives in) is
checked textually: the flattened body must match the sequence of patterns in `SHAPE` in this order, otherwise
the translator raises.  Every expression captured by a pattern is parsed (cexpr.Parser, extended here with
`?:`, calls of ROUNDUP_BYTES, `%`) and emitted as a Lean definition over `Nat` (C ints that are never negative
on this path; `fbitsize`, which is -1 for non-bit-fields, is an `Int` where it is tested against 0).
Model/Layout.lean (`stepC`, `finishC`, `packCfg`, `St.init`) is built from these definitions only.

C on non-negative ints -> Lean on Nat:
  `x & ~m`  -> `andNot x m := x - (x &&& m)`   (clearing the bits of m; exact for non-negative x, m)
  `x & m`   -> `x &&& m`,  `x >> n` -> `x >>> n`
  `a - b`   -> truncated subtraction; every subtraction met is listed in `subtractions` of the summary
               (on this path: `falign - 1`, `alignment - 1`, `byteoffset - field_offset_bytes`, all with b <= a)
  a comparison / `!x` used as an int -> `b2n`; an int used as a truth value -> `!= 0`
"""
import os
import re
import sys

sys.path.insert(0, os.path.dirname(os.path.abspath(__file__)))
import cexpr
from cexpr import CExprError

FUNC = "b_complete_struct_or_union_lock_held"

TOK = re.compile(r"\s*(?:(0[xX][0-9a-fA-F]+[uUlL]*|\d+[uUlL]*)|([A-Za-z_]\w*(?:\s*->\s*[A-Za-z_]\w*)*)|"
                 r"(<<|>>|<=|>=|==|!=|&&|\|\||[-+*/%&|^~!<>()?:,]))")


def tokenize(s):
    pos, out = 0, []
    s = s.strip()
    while pos < len(s):
        m = TOK.match(s, pos)
        if not m:
            raise CExprError("cannot tokenize %r at %d" % (s, pos))
        if m.group(1):
            out.append(("num", m.group(1)))
        elif m.group(2):
            out.append(("id", re.sub(r"\s+", "", m.group(2))))
        else:
            out.append(("op", m.group(3)))
        pos = m.end()
    return out


class Parser(cexpr.Parser):
    """cexpr.Parser + `c ? a : b` (lowest precedence) + calls `NAME(arg, ...)`."""

    def parse(self):
        e = self.ternary()
        if self.i != len(self.t):
            raise CExprError("trailing tokens %r" % (self.t[self.i:],))
        return e

    def ternary(self):
        c = self.binary(0)
        if self.peek() == ("op", "?"):
            self.eat()
            a = self.ternary()
            self.eat("op", ":")
            b = self.ternary()
            return ("tern", c, a, b)
        return c

    def unary(self):
        k, v = self.peek()
        if k == "op" and v == "(" and self.try_cast_peek() is None:
            self.eat()
            e = self.ternary()
            self.eat("op", ")")
            return e
        if k == "id" and self.i + 1 < len(self.t) and self.t[self.i + 1] == ("op", "("):
            self.eat()
            self.eat("op", "(")
            args = []
            if self.peek() != ("op", ")"):
                args.append(self.ternary())
                while self.peek() == ("op", ","):
                    self.eat()
                    args.append(self.ternary())
            self.eat("op", ")")
            return ("call", v, args)
        return cexpr.Parser.unary(self)

    def try_cast_peek(self):
        i = self.i
        c = self.try_cast()
        self.i = i
        return c


def parse(s):
    return Parser(tokenize(s)).parse()


class LEmitter:
    """env: C name -> (lean name, "nat" | "int" | "bool").  Functions: C macro name -> lean name."""

    def __init__(self, env, funcs=None):
        self.env, self.funcs = env, funcs or {}
        self.subs = []

    def num(self, txt):
        return int(re.sub(r"[uUlL]+$", "", txt), 0)

    def term(self, e):
        """-> (lean term, "nat" | "int" | None for a literal)"""
        k = e[0]
        if k == "num":
            return "%d" % self.num(e[1]), None
        if k == "id":
            if e[1] not in self.env:
                raise CExprError("unknown variable %s" % e[1])
            name, ty = self.env[e[1]]
            if ty == "bool":
                return "(b2n %s)" % name, "nat"
            return name, ty
        if k == "call":
            if e[1] not in self.funcs:
                raise CExprError("unknown function %s" % e[1])
            args = [self.term(a) for a in e[2]]
            if any(t == "int" for _, t in args):
                raise CExprError("Int argument to %s" % e[1])
            return "(%s %s)" % (self.funcs[e[1]], " ".join(a for a, _ in args)), "nat"
        if k == "tern":
            a, ta = self.term(e[2])
            b, tb = self.term(e[3])
            return "(if %s then %s else %s)" % (self.cond(e[1]), a, b), self.join(ta, tb, e)
        if k == "un" and e[1] in "+":
            return self.term(e[2])
        if k == "un" and e[1] == "!":
            return "(b2n %s)" % self.cond(e), "nat"
        if k == "bin":
            op = e[1]
            if op in ("<", ">", "<=", ">=", "==", "!=", "&&", "||"):
                return "(b2n %s)" % self.cond(e), "nat"
            if op == "&" and e[3][0] == "un" and e[3][1] == "~":
                a, ta = self.term(e[2])
                m, tm = self.term(e[3][2])
                if "int" in (ta, tm):
                    raise CExprError("`& ~` on an Int-typed value in %r" % (e,))
                return "(andNot %s %s)" % (a, m), "nat"
            a, ta = self.term(e[2])
            b, tb = self.term(e[3])
            ty = self.join(ta, tb, e)
            if op in ("+", "*", "/", "%"):
                return "(%s %s %s)" % (a, op, b), ty
            if op == "-":
                if ty != "int":
                    self.subs.append("%s - %s" % (a, b))
                return "(%s - %s)" % (a, b), ty
            if ty == "int":
                raise CExprError("bit operation on an Int-typed value in %r" % (e,))
            if op == "&":
                return "(%s &&& %s)" % (a, b), "nat"
            if op == "|":
                return "(%s ||| %s)" % (a, b), "nat"
            if op == ">>":
                return "(%s >>> %s)" % (a, b), "nat"
            if op == "<<":
                return "(%s <<< %s)" % (a, b), "nat"
        raise CExprError("unsupported term %r" % (e,))

    def join(self, ta, tb, e):
        if ta and tb and ta != tb:
            raise CExprError("mixed Nat/Int arithmetic in %r" % (e,))
        return ta or tb or "nat"

    def cond(self, e):
        k = e[0]
        if k == "bin" and e[1] in ("&&", "||"):
            return "(%s %s %s)" % (self.cond(e[2]), e[1], self.cond(e[3]))
        if k == "un" and e[1] == "!":
            return "(!%s)" % self.cond(e[2])
        if k == "bin" and e[1] in ("<", ">", "<=", ">=", "==", "!="):
            a, ta = self.term(e[2])
            b, tb = self.term(e[3])
            ty = "Int" if self.join(ta, tb, e) == "int" else "Nat"
            op = {"<": "<", ">": ">", "<=": "≤", ">=": "≥", "==": "=", "!=": "≠"}[e[1]]
            return "(decide ((%s : %s) %s (%s : %s)))" % (a, ty, op, b, ty)
        if k == "id" and e[1] in self.env and self.env[e[1]][1] == "bool":
            return self.env[e[1]][0]
        # an integer used as a truth value
        a, ta = self.term(e)
        return "(decide ((%s : %s) ≠ 0))" % (a, "Int" if ta == "int" else "Nat")


# ----------------------------------------------------------------------------- extraction

def func_body(src):
    m = re.search(r"^static PyObject \*%s\(" % FUNC, src, re.M)
    if not m:
        raise CExprError("function %s not found" % FUNC)
    i = src.index("{", m.end())
    depth, j = 1, i + 1
    while depth:
        c = src[j]
        depth += c == "{"
        depth -= c == "}"
        j += 1
    return re.sub(r"\s+", " ", cexpr.strip_c_comments(src[i + 1:j - 1]))


GL = r"PyUnicode_GetLength\(fname\)"
NOTMSVC = r"!\(sflags & SF_MSVC_BITFIELDS\)"
X = r"[^;{}]+?"          # one expression (no statement/brace boundary)

# (name of the extraction point, regex).  Matched in this order, each after the end of the previous one.
SHAPE = [
    ("prologue", r"sflags = complete_sflags\(sflags\); if \(sflags & SF_PACKED\) pack = (?P<packed_pack>%s); "
                 r"else if \((?P<nopack_cond>%s)\) pack = (?P<nopack_pack>%s); else sflags \|= SF_PACKED;" % (X, X, X)),
    ("init", r"alignment = (?P<init_alignment>%s); byteoffset = (?P<init_byteoffset>%s); "
             r"bitoffset = (?P<init_bitoffset>%s); byteoffsetmax = (?P<init_max>%s);" % (X, X, X, X)),
    ("loop", r"for \(i=0; i<nb_fields; i\+\+\) \{"),
    ("union_reset", r"if \(is_union\) byteoffset = bitoffset = (?P<union_reset>%s);" % X),
    ("falign", r"falignorg = get_alignment\(ftype\); if \(falignorg < 0\) goto finally; falign = (?P<falign>%s);" % X),
    ("do_align", r"do_align = (?P<da_default>%s); if \((?P<da_guard>%s)\) \{ if \((?P<da_gcc>%s)\) \{ "
                 r"do_align = (?P<da_gccval>%s); \} else \{ do_align = (?P<da_msvcval>%s); \} \}" % (X, X, NOTMSVC, X, X)),
    ("alignment", r"if \((?P<al_cond>%s)\) alignment = (?P<al_new>%s);" % (X, X)),
    ("nonbitfield", r"if \((?P<nbf_cond>fbitsize < 0)\) \{"),
    ("nbf_pad", r"byteoffset = (?P<nbf_round>ROUNDUP_BYTES\(%s\)); bitoffset = (?P<nbf_bit>%s); "
                r"byteoffsetorg = %s; byteoffset = (?P<nbf_align>%s);" % (X, X, X, X)),
    ("anonymous", r"if \((?P<anon_cond>%s == 0 && ftype->ct_flags & \(CT_STRUCT\|CT_UNION\))\) \{ "
                  r"CFieldObject \*cfsrc = \(CFieldObject \*\)ftype->ct_extra; "
                  r"for \(; cfsrc != NULL; cfsrc = cfsrc->cf_next\) \{ \*previous = _add_field\(interned_fields, "
                  r"get_field_name\(ftype, cfsrc\), cfsrc->cf_type, (?P<anon_off>[^,]+), cfsrc->cf_bitshift, "
                  r"cfsrc->cf_bitsize, cfsrc->cf_flags \| fflags\);" % GL),
    ("nbf_field", r"\} else \{ \*previous = _add_field\(interned_fields, fname, ftype, (?P<nbf_off>[^,]+), bs_flag, "
                  r"-1, fflags\);"),
    ("nbf_advance", r"if \(ftype->ct_size >= 0\) byteoffset \+= (?P<nbf_adv>%s); prev_bitfield_size = 0; \} else \{" % X),
    ("intlike", r"if \(!\(ftype->ct_flags & \(CT_PRIMITIVE_SIGNED \| CT_PRIMITIVE_UNSIGNED \| CT_PRIMITIVE_CHAR\)\)\) \{ "
                r"PyErr_Format\(PyExc_TypeError,"),
    ("too_wide", r"if \((?P<too_wide>fbitsize > %s)\) \{ PyErr_Format\(PyExc_TypeError, \"bit field" % X),
    ("fob", r"field_offset_bytes = (?P<fob_init>%s); field_offset_bytes &= (?P<fob_mask>%s);" % (X, X)),
    ("zero_width", r"if \((?P<zw_cond>fbitsize == 0)\) \{ if \((?P<zw_named>%s > 0)\) \{ PyErr_Format\(PyExc_TypeError," % GL),
    ("zero_width_gcc", r"if \((?P<zw_gcc>%s)\) \{ if \((?P<zw_pad>%s)\) \{ field_offset_bytes \+= (?P<zw_next>%s); "
                       r"assert\(%s\); \} byteoffset = (?P<zw_byte>%s); bitoffset = (?P<zw_bit>%s); \} else \{ \} "
                       r"prev_bitfield_size = 0; \} else \{" % (NOTMSVC, X, X, X, X, X)),
    ("gcc_algorithm", r"if \((?P<alg_gcc>%s)\) \{ bits_already_occupied = (?P<bao>%s); if \((?P<fit_fails>%s)\) \{ "
                      r"if \((?P<packed_reuse>%s)\) \{ PyErr_Format\(PyExc_NotImplementedError," % (NOTMSVC, X, X, X)),
    ("no_fit", r"goto finally; \} field_offset_bytes \+= (?P<nf_next>%s); assert\(%s\); byteoffset = (?P<nf_byte>%s); "
               r"bitoffset = (?P<nf_bit>%s); bitshift = (?P<nf_shift>%s); \} else \{ bitshift = (?P<fit_shift>%s); "
               r"assert\(%s\); \} bitoffset \+= (?P<bit_add>%s); byteoffset \+= (?P<byte_carry>%s); "
               r"bitoffset &= (?P<bit_mask>%s); \} else \{" % (X, X, X, X, X, X, X, X, X, X)),
    ("endian", r"if \(sflags & SF_GCC_BIG_ENDIAN\) bitshift = %s;" % X),
    ("bf_field", r"if \((?P<bf_named>%s > 0)\) \{ \*previous = _add_field\(interned_fields, fname, ftype, "
                 r"(?P<bf_off>[^,]+), (?P<bf_shift>[^,]+), (?P<bf_size>[^,]+), fflags\);" % GL),
    ("max", r"assert\(bitoffset == \(bitoffset & 7\)\); if \((?P<max_cond>%s)\) byteoffsetmax = (?P<max_new>%s); \} "
            r"\*previous = NULL;" % (X, X)),
    ("final_size", r"alignedsize = (?P<aligned_size>%s); if \((?P<size_zero>%s)\) alignedsize = (?P<size_if_zero>%s);"
                   % (X, X, X)),
    ("total", r"if \(totalsize < 0\) \{ totalsize = (?P<total_size>%s); \}" % X),
    ("total_align", r"if \(totalalignment < 0\) \{ totalalignment = (?P<total_align>%s); \}" % X),
]

NAT = "nat"
# C variable -> (Lean name, kind)
V = {
    "pack": ("pack", NAT), "falignorg": ("falignorg", NAT), "falign": ("falign", NAT),
    "alignment": ("alignment", NAT), "byteoffset": ("byteoffset", NAT), "bitoffset": ("bitoffset", NAT),
    "byteoffsetmax": ("byteoffsetmax", NAT), "field_offset_bytes": ("field_offset_bytes", NAT),
    "bits_already_occupied": ("bits_already_occupied", NAT), "fbitsize": ("fbitsize", NAT),
    "ftype->ct_size": ("ct_size", NAT), "cfsrc->cf_offset": ("cf_offset", NAT), "alignedsize": ("alignedsize", NAT),
    "bitshift": ("bitshift", NAT), "do_align": ("do_align", "bool"),
    # sub-expressions replaced by a variable before parsing (see SUBST)
    "fnamelen": ("fnamelen", NAT), "sf_arm": ("sf_arm", NAT), "sf_msvc": ("sf_msvc", NAT),
    "sf_packed": ("sf_packed", NAT), "is_agg": ("is_agg", NAT),
}
SUBST = [
    ("PyUnicode_GetLength(fname)", "fnamelen"),
    ("sflags & SF_GCC_ARM_BITFIELDS", "sf_arm"),
    ("sflags & SF_MSVC_BITFIELDS", "sf_msvc"),
    ("sflags & SF_PACKED", "sf_packed"),
    ("ftype->ct_flags & (CT_STRUCT|CT_UNION)", "(is_agg)"),
]


def subst(text):
    for a, b in SUBST:
        text = text.replace(a, b)
    return text


def generate(repo):
    src = open(os.path.join(repo, "src/c/_cffi_backend.c")).read()
    flat = func_body(src)
    g, pos = {}, 0
    for name, rx in SHAPE:
        m = re.compile(rx).search(flat, pos)
        if not m:
            raise CExprError("extraction point %r not found after offset %d of %s (missing or reshaped): %s"
                             % (name, pos, FUNC, rx[:120]))
        for k, v in m.groupdict().items():
            g[k] = v.strip()
        pos = m.end()
    # the macro and the constants
    m = re.search(r"^#define ROUNDUP_BYTES\(bytes, bits\)\s+(.+)$", src, re.M)
    if not m:
        raise CExprError("#define ROUNDUP_BYTES(bytes, bits) not found")
    g["roundup_bytes"] = m.group(1).strip()
    m = re.search(r"#ifdef MS_WIN32\s*\n#\s*define SF_DEFAULT_PACKING\s+\S+\s*\n#else\s*\n#\s*define SF_DEFAULT_PACKING\s+(\w+)", src)
    if not m:
        raise CExprError("#define SF_DEFAULT_PACKING (non-Windows) not found")
    g["default_packing"] = m.group(1)
    flags = {}
    for fl in ("SF_MSVC_BITFIELDS", "SF_GCC_ARM_BITFIELDS", "SF_GCC_X86_BITFIELDS", "SF_GCC_BIG_ENDIAN",
               "SF_GCC_LITTLE_ENDIAN", "SF_PACKED", "SF_STD_FIELD_POS"):
        m = re.search(r"^#define %s\s+(0x[0-9a-fA-F]+|\d+)\s*$" % fl, src, re.M)
        if not m:
            raise CExprError("#define %s not found" % fl)
        flags[fl] = int(m.group(1), 0)
    # what complete_sflags adds on this platform (not Windows, not ARM): the x86 style
    cs = re.sub(r"\s+", " ", cexpr.strip_c_comments(
        src[src.index("static int complete_sflags"):src.index("static int detect_custom_layout")]))
    if not re.search(r"# else sflags \|= SF_GCC_X86_BITFIELDS; # endif #endif", cs):
        raise CExprError("complete_sflags no longer defaults to SF_GCC_X86_BITFIELDS on non-Windows non-ARM")
    if g["zw_gcc"] != g["da_gcc"] or g["alg_gcc"] != g["da_gcc"]:
        raise CExprError("the three tests for the GCC style differ")

    subs = []
    defs = []

    def d(name, params, ty, key, env=None, cond=False, funcs=None, text=None):
        text = g[key] if text is None else text
        em = LEmitter(dict(V, **(env or {})), funcs if funcs is not None else {"ROUNDUP_BYTES": "roundupBytes"})
        ast = parse(subst(text))
        term = em.cond(ast) if cond else em.term(ast)[0]
        subs.extend(em.subs)
        defs.append("/-- %s: `%s` -/\ndef %s %s: %s :=\n  %s\n"
                    % (key, text.replace("-/", "- /"), name, params + " " if params else "", ty, term))

    N = "Nat"
    # ROUNDUP_BYTES first (used by the others)
    d("roundupBytes", "(bytes bits : Nat)", N, "roundup_bytes",
      env={"bytes": ("bytes", NAT), "bits": ("bits", NAT)}, funcs={})
    d("defaultPacking", "", N, "default_packing")
    d("packedPack", "", N, "packed_pack")
    d("noPackCond", "(pack : Int)", "Bool", "nopack_cond", env={"pack": ("pack", "int")}, cond=True)
    if g["nopack_pack"] != "SF_DEFAULT_PACKING":
        raise CExprError("pack <= 0 no longer selects SF_DEFAULT_PACKING: %r" % g["nopack_pack"])
    d("initAlignment", "", N, "init_alignment")
    d("initByteoffset", "", N, "init_byteoffset")
    d("initBitoffset", "", N, "init_bitoffset")
    d("initByteoffsetmax", "", N, "init_max")
    d("unionReset", "", N, "union_reset")
    d("falign", "(pack falignorg : Nat)", N, "falign")
    d("doAlignDefault", "", "Bool", "da_default", cond=True)
    d("doAlignGuard", "(sf_arm : Nat) (fbitsize : Int)", "Bool", "da_guard", env={"fbitsize": ("fbitsize", "int")}, cond=True)
    d("gccStyle", "(sf_msvc : Nat)", "Bool", "da_gcc", cond=True)
    d("doAlignGcc", "(fnamelen : Nat)", "Bool", "da_gccval", cond=True)
    d("doAlignMsvc", "(fbitsize : Int)", "Bool", "da_msvcval", env={"fbitsize": ("fbitsize", "int")}, cond=True)
    d("alignUpdateCond", "(alignment falign : Nat) (do_align : Bool)", "Bool", "al_cond", cond=True)
    d("alignUpdateNew", "(falign : Nat)", N, "al_new")
    d("isNotBitfield", "(fbitsize : Int)", "Bool", "nbf_cond", env={"fbitsize": ("fbitsize", "int")}, cond=True)
    d("nbfRoundup", "(byteoffset bitoffset : Nat)", N, "nbf_round")
    d("nbfBitoffset", "", N, "nbf_bit")
    d("nbfAlign", "(byteoffset falign : Nat)", N, "nbf_align")
    d("anonCond", "(fnamelen is_agg : Nat)", "Bool", "anon_cond", cond=True)
    d("anonOffset", "(byteoffset cf_offset : Nat)", N, "anon_off")
    d("nbfOffset", "(byteoffset : Nat)", N, "nbf_off")
    d("nbfAdvance", "(byteoffset ct_size : Nat)", N, "nbf_adv", text="byteoffset + (%s)" % g["nbf_adv"])
    d("tooWide", "(fbitsize ct_size : Nat)", "Bool", "too_wide", cond=True)
    d("fieldOffsetBytes", "(byteoffset falign : Nat)", N, "fob_mask",
      text="(%s) & (%s)" % (g["fob_init"], g["fob_mask"]))
    d("isZeroWidth", "(fbitsize : Nat)", "Bool", "zw_cond", cond=True)
    d("namedCond", "(fnamelen : Nat)", "Bool", "zw_named", cond=True)
    if g["bf_named"] != g["zw_named"]:
        raise CExprError("the two 'field has a name' tests of the bit-field branch differ")
    d("zeroWidthPad", "(byteoffset bitoffset field_offset_bytes : Nat)", "Bool", "zw_pad", cond=True)
    d("nextUnit", "(field_offset_bytes falign : Nat)", N, "zw_next", text="field_offset_bytes + (%s)" % g["zw_next"])
    if g["nf_next"] != g["zw_next"]:
        raise CExprError("`field_offset_bytes += ...` differs between the :0 and the does-not-fit branch")
    d("zeroWidthByteoffset", "(field_offset_bytes : Nat)", N, "zw_byte")
    d("zeroWidthBitoffset", "", N, "zw_bit")
    d("bitsAlreadyOccupied", "(byteoffset field_offset_bytes bitoffset : Nat)", N, "bao")
    d("fitFails", "(bits_already_occupied fbitsize ct_size : Nat)", "Bool", "fit_fails", cond=True)
    d("packedReuse", "(sf_packed bits_already_occupied : Nat)", "Bool", "packed_reuse", cond=True)
    d("noFitByteoffset", "(field_offset_bytes : Nat)", N, "nf_byte")
    d("noFitBitoffset", "", N, "nf_bit")
    d("noFitBitshift", "", N, "nf_shift")
    d("fitBitshift", "(bits_already_occupied : Nat)", N, "fit_shift")
    d("bitoffsetAdd", "(bitoffset fbitsize : Nat)", N, "bit_add", text="bitoffset + (%s)" % g["bit_add"])
    d("byteoffsetCarry", "(byteoffset bitoffset : Nat)", N, "byte_carry", text="byteoffset + (%s)" % g["byte_carry"])
    d("bitoffsetMask", "(bitoffset : Nat)", N, "bit_mask", text="bitoffset & (%s)" % g["bit_mask"])
    d("bfOffset", "(field_offset_bytes : Nat)", N, "bf_off")
    d("bfBitshift", "(bitshift : Nat)", N, "bf_shift")
    d("bfBitsize", "(fbitsize : Nat)", N, "bf_size")
    d("maxCond", "(byteoffset bitoffset byteoffsetmax : Nat)", "Bool", "max_cond", cond=True)
    d("maxNew", "(byteoffset bitoffset : Nat)", N, "max_new")
    d("alignedSize", "(byteoffsetmax alignment : Nat)", N, "aligned_size")
    d("sizeIsZero", "(alignedsize : Nat)", "Bool", "size_zero", cond=True)
    d("sizeIfZero", "", N, "size_if_zero")
    d("totalSize", "(alignedsize : Nat)", N, "total_size")
    d("totalAlignment", "(alignment : Nat)", N, "total_align")

    out = ["set_option linter.unusedVariables false", "",
           "namespace CffiVerif.Generated.LX", "",
           "/-- `x & ~m` on non-negative C ints: clear the bits of `m` in `x`. -/",
           "def andNot (x m : Nat) : Nat := x - (x &&& m)", "",
           "/-- a C truth value used as an int -/",
           "def b2n (b : Bool) : Nat := if b then 1 else 0", ""]
    out += defs
    for fl, v in sorted(flags.items()):
        out.append("def %s : Nat := %d" % ("".join(w.capitalize() if i else w.lower()
                                                  for i, w in enumerate(fl.split("_"))), v))
    out.append("")
    out.append("/-- number of named extraction points matched, in order, inside `%s` -/" % FUNC)
    out.append("def extractionPoints : Nat := %d" % len(SHAPE))
    out.append("")
    out.append("end CffiVerif.Generated.LX")
    uniq = []
    for s_ in subs:
        if s_ not in uniq:
            uniq.append(s_)
    summary = {k: v for k, v in g.items()}
    summary["subtractions (truncated on Nat; each has b <= a on this path)"] = uniq
    summary["flags"] = flags
    return "\n".join(out) + "\n", summary


def translator():
    import common
    text, summary = generate(common.REPO)
    return common.write_generated("LayoutExprs", text, summary)


if __name__ == "__main__":
    print(generate(sys.argv[1] if len(sys.argv) > 1 else "/repo")[0])
