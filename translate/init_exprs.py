"""Translator for C20: re-extracts, at named extraction points of /repo/src/c/_cffi_backend.c, the integer
expressions and conditions behind the sizes `ffi.new` computes and `ffi.sizeof` reports, into
lean/CffiVerif/Generated/InitExprs.lean:

  add_varsize_length          the ADD/MUL_WRAPAROUND size, the overflow test, the `size > *optvarsize` update
  get_new_array_length        `PyBytes_GET_SIZE(value) + 1`, the negative-length test
  direct_newp                 the unknown-size test, `datasize *= 2` for char items, the guard of the size pre-pass
                              (`init != Py_None && !CData_Check(init)`), the open-array size
                              `MUL_WRAPAROUND(explicitlength, itemsize)` and its overflow test
  convert_array_from_object   `ct->ct_length >= 0 && n > ct->ct_length`, `n != ct->ct_length` (then `n++`)
  direct_sizeof_cdata         `get_array_length(cd) * itemsize`, the default -1, the `size < 0` fallback
  _cdata_var_byte_size        (structure only)

The control structure around the expressions (which statement follows which, what is raised) is matched
textually against the shape that Model/Init.lean models by hand; any reshaping raises.  The two macros
ADD_WRAPAROUND / MUL_WRAPAROUND must have their known definitions (64-bit wrap of the exact result).
Plain `+ - *` on Py_ssize_t values are emitted as exact `Int` arithmetic (signed overflow there would be
undefined behaviour in C; the operands at these points are sizes of existing objects), `/` as truncating
division `Int.tdiv`.
"""
import os
import re
import sys

sys.path.insert(0, os.path.dirname(os.path.abspath(__file__)))
import cexpr
from cexpr import CExprError

TOK = re.compile(r"\s*(?:(\d+[uUlL]*|0[xX][0-9a-fA-F]+[uUlL]*)|([A-Za-z_]\w*(?:\s*->\s*[A-Za-z_]\w*)*)|"
                 r"(<<|>>|<=|>=|==|!=|&&|\|\||[-+*/%&|^~!<>()?:,]))")

MACROS = {
    "ADD_WRAPAROUND": ("#define ADD_WRAPAROUND(x, y) ((Py_ssize_t)(((size_t)(x)) + ((size_t)(y))))", "+"),
    "MUL_WRAPAROUND": ("#define MUL_WRAPAROUND(x, y) ((Py_ssize_t)(((size_t)(x)) * ((size_t)(y))))", "*"),
}


def tokenize(s):
    pos, out = 0, []
    s = s.strip()
    while pos < len(s):
        m = TOK.match(s, pos)
        if not m:
            raise CExprError("cannot tokenize %r at %d" % (s, pos))
        if m.group(1):
            out.append(("num", m.group(1)))
        elif m.group(2):
            out.append(("id", re.sub(r"\s+", "", m.group(2))))
        else:
            out.append(("op", m.group(3)))
        pos = m.end()
    return out


class Parser(cexpr.Parser):
    """cexpr's grammar plus macro calls `NAME(arg, arg)`."""
    def unary(self):
        k, v = self.peek()
        if k == "id" and self.i + 1 < len(self.t) and self.t[self.i + 1] == ("op", "("):
            self.eat()
            self.eat("op", "(")
            args = [self.binary(0)]
            while self.peek() == ("op", ","):
                self.eat()
                args.append(self.binary(0))
            self.eat("op", ")")
            return ("call", v, args)
        return cexpr.Parser.unary(self)


def parse(s):
    return Parser(tokenize(s)).parse()


class IntEmitter:
    """env: C name -> (lean name, "int" | "bool")."""
    def __init__(self, env):
        self.env = env

    def term(self, e):
        k = e[0]
        if k == "num":
            return "(%d : Int)" % int(re.sub(r"[uUlL]+$", "", e[1]), 0)
        if k == "id":
            if e[1] not in self.env or self.env[e[1]][1] != "int":
                raise CExprError("unknown integer variable %s" % e[1])
            return self.env[e[1]][0]
        if k == "un" and e[1] == "-":
            return "(-%s)" % self.term(e[2])
        if k == "bin" and e[1] in ("+", "-", "*"):
            return "(%s %s %s)" % (self.term(e[2]), e[1], self.term(e[3]))
        if k == "bin" and e[1] == "/":
            return "(Int.tdiv %s %s)" % (self.term(e[2]), self.term(e[3]))
        if k == "call" and e[1] in MACROS and len(e[2]) == 2:
            return "(wrap64 (%s %s %s))" % (self.term(e[2][0]), MACROS[e[1]][1], self.term(e[2][1]))
        raise CExprError("unsupported term %r" % (e,))

    def cond(self, e):
        k = e[0]
        if k == "id":
            if e[1] not in self.env or self.env[e[1]][1] != "bool":
                raise CExprError("unknown boolean %s" % e[1])
            return self.env[e[1]][0]
        if k == "bin" and e[1] in ("&&", "||"):
            return "(%s %s %s)" % (self.cond(e[2]), e[1], self.cond(e[3]))
        if k == "un" and e[1] == "!":
            return "(!%s)" % self.cond(e[2])
        if k == "bin" and e[1] in ("<", ">", "<=", ">="):
            op = {"<": "<", ">": ">", "<=": "≤", ">=": "≥"}[e[1]]
            return "(decide (%s %s %s))" % (self.term(e[2]), op, self.term(e[3]))
        if k == "bin" and e[1] in ("==", "!="):
            return "(%s %s %s)" % (self.term(e[2]), e[1], self.term(e[3]))
        raise CExprError("unsupported condition %r" % (e,))


def function_body(src, name):
    m = re.search(r"\b%s\s*\([^)]*\)\s*\{" % re.escape(name), src)
    if not m:
        raise CExprError("function %s not found" % name)
    i, depth = m.end(), 1
    while depth:
        c = src[i]
        depth += (c == "{") - (c == "}")
        i += 1
    return re.sub(r"\s+", " ", cexpr.strip_c_comments(src[m.end():i - 1])).strip()


def need(pattern, text, what):
    m = re.search(pattern, text)
    if not m:
        raise CExprError("extraction point %s is missing or reshaped" % what)
    return {k: v.strip() for k, v in m.groupdict().items()}


def generate(repo):
    src = open(os.path.join(repo, "src/c/_cffi_backend.c")).read()
    flatsrc = re.sub(r"[ \t]+", " ", src)
    for name, (text, _) in MACROS.items():
        if re.sub(r"\s+", " ", text) not in re.sub(r"\s+", " ", flatsrc):
            raise CExprError("macro %s no longer has the modelled definition" % name)
    g = {}
    out = ["import CffiVerif.Model.InitBase", "set_option linter.unusedVariables false", "",
           "namespace CffiVerif.Generated.InitExprs", "open CffiVerif.Init", ""]

    def d(name, params, ty, text, term):
        g[name] = text
        out.append("/-- `%s` -/\ndef %s %s : %s :=\n  %s\n" % (text, name, params, ty, term))

    # ---- add_varsize_length
    b = function_body(src, "add_varsize_length")
    a = need(r"^Py_ssize_t size = (?P<size>[^;]*); if \((?P<ovf>.*?)\) \{ PyErr_SetString\(PyExc_OverflowError, "
             r"[^;]*\); return -1; \} if \((?P<upd>[^{}]*?)\) \*optvarsize = (?P<newval>[^;]*); return 0;$",
             b, "add_varsize_length")
    if a["newval"] != "size":
        raise CExprError("add_varsize_length stores %r into *optvarsize" % a["newval"])
    em = IntEmitter({"offset": ("offset", "int"), "itemsize": ("itemsize", "int"),
                     "varsizelength": ("varsizelength", "int"), "size": ("size", "int"),
                     "optvarsize_val": ("optvarsize", "int")})
    d("avSize", "(offset itemsize varsizelength : Int)", "Int", a["size"], em.term(parse(a["size"])))
    d("avOverflow", "(size offset itemsize varsizelength : Int)", "Bool", a["ovf"], em.cond(parse(a["ovf"])))
    d("avUpdate", "(size optvarsize : Int)", "Bool", a["upd"],
      em.cond(parse(a["upd"].replace("*optvarsize", "optvarsize_val"))))

    # ---- get_new_array_length
    b = function_body(src, "get_new_array_length")
    a = need(r"if \(PyList_Check\(value\) \|\| PyTuple_Check\(value\)\) \{ return PySequence_Fast_GET_SIZE\(value\); \} "
             r"else if \(PyBytes_Check\(value\)\) \{ return (?P<bytes>[^;]*); \}", b, "get_new_array_length (list/bytes)")
    a.update(need(r"else \{ Py_ssize_t explicitlength; explicitlength = PyNumber_AsSsize_t\(value, PyExc_OverflowError\); "
                  r"if \((?P<neg>[^{}]*?)\) \{ if \(PyErr_Occurred\(\)\) \{.*?\} else PyErr_SetString\(PyExc_ValueError, "
                  r"\"negative array length\"\); return -1; \} \*pvalue = Py_None; return explicitlength; \}",
                  b, "get_new_array_length (explicit length)"))
    em = IntEmitter({"bytes_size": ("bytesSize", "int"), "explicitlength": ("explicitlength", "int")})
    d("nalBytes", "(bytesSize : Int)", "Int", a["bytes"],
      em.term(parse(a["bytes"].replace("PyBytes_GET_SIZE(value)", "bytes_size"))))
    d("nalNegative", "(explicitlength : Int)", "Bool", a["neg"], em.cond(parse(a["neg"])))

    # ---- direct_newp
    b = function_body(src, "direct_newp")
    a = need(r"datasize = cffi_get_size\(ctitem\); if \((?P<unk>[^{}]*?)\) \{ PyErr_Format\(PyExc_TypeError, "
             r"\"cannot instantiate ctype '%s' of unknown size\"", b, "direct_newp (item size)")
    a.update(need(r"if \(ctitem->ct_flags & CT_PRIMITIVE_CHAR\) datasize \*= (?P<charmul>[^;]*);", b,
                  "direct_newp (char item)"))
    a.update(need(r"if \(ctitem->ct_flags & \(CT_STRUCT \| CT_UNION\)\) \{ if \(ctitem->ct_flags_mut & CT_WITH_VAR_ARRAY\) \{ "
                  r"assert\([^;]*\); dataoffset = offsetof\(CDataObject_own_length, alignment\); "
                  r"if \((?P<guard>[^{}]*?)\) \{ Py_ssize_t optvarsize = datasize; "
                  r"if \(convert_struct_from_object\(NULL, ctitem, init, &optvarsize\) < 0\) return NULL; "
                  r"datasize = optvarsize; \} \} \}", b, "direct_newp (size pre-pass)"))
    a.update(need(r"else if \(ct->ct_flags & CT_ARRAY\) \{ dataoffset = [^;]*; datasize = ct->ct_size; "
                  r"if \((?P<open>[^{}]*?)\) \{ explicitlength = get_new_array_length\(ct->ct_itemdescr, &init\); "
                  r"if \((?P<lenerr>[^{}]*?)\) return NULL; ctitem = ct->ct_itemdescr; dataoffset = [^;]*; "
                  r"datasize = (?P<arrsize>[^;]*); if \((?P<arrovf>.*?)\) \{ PyErr_SetString\(PyExc_OverflowError, "
                  r"[^;]*\); return NULL; \} \} \}", b, "direct_newp (array size)"))
    need(r"\(\(CDataObject_own_length \*\)cds\)->length = datasize;", b, "direct_newp (length slot of a var-sized struct)")
    need(r"if \(explicitlength >= 0\) \(\(CDataObject_own_length ?\*\)cd\)->length = explicitlength;", b,
         "direct_newp (length slot of an open array)")
    need(r"if \(init != Py_None\) \{ if \(convert_from_object\(cd->c_data, \(ct->ct_flags & CT_POINTER\) \? "
         r"ct->ct_itemdescr : ct, init\) < 0\)", b, "direct_newp (conversion)")
    em = IntEmitter({"datasize": ("datasize", "int"), "explicitlength": ("explicitlength", "int"),
                     "ctitem->ct_size": ("itemsize", "int"),
                     "init_given": ("initGiven", "bool"), "init_is_cdata": ("initIsCData", "bool")})
    d("npUnknownSize", "(datasize : Int)", "Bool", a["unk"], em.cond(parse(a["unk"])))
    d("npCharSize", "(datasize : Int)", "Int", "datasize *= " + a["charmul"],
      em.term(parse("datasize * (%s)" % a["charmul"])))
    guard = a["guard"]
    for old, new in (("init != Py_None", "init_given"), ("CData_Check(init)", "init_is_cdata")):
        guard = guard.replace(old, new)
    d("npPrepassGuard", "(initGiven initIsCData : Bool)", "Bool", a["guard"], em.cond(parse(guard)))
    d("npOpenArray", "(datasize : Int)", "Bool", a["open"], em.cond(parse(a["open"])))
    d("npLengthError", "(explicitlength : Int)", "Bool", a["lenerr"], em.cond(parse(a["lenerr"])))
    d("npArrSize", "(explicitlength itemsize : Int)", "Int", a["arrsize"], em.term(parse(a["arrsize"])))
    d("npArrOverflow", "(datasize explicitlength itemsize : Int)", "Bool", a["arrovf"], em.cond(parse(a["arrovf"])))

    # ---- convert_array_from_object
    b = function_body(src, "convert_array_from_object")
    too = re.findall(r"if \((ct->ct_length >= 0 && [^{}]*?)\) \{ PyErr_Format\(PyExc_IndexError,", b)
    if len(too) != 3 or len(set(too)) != 1:
        raise CExprError("convert_array_from_object: expected the same length test in the list, bytes and unicode "
                         "branches, found %r" % (too,))
    nul = re.findall(r"if \(([^(){}]*)\) n\+\+;", b)
    if len(nul) != 2 or len(set(nul)) != 1:
        raise CExprError("convert_array_from_object: expected `if (...) n++;` twice, found %r" % (nul,))
    need(r"n = PySequence_Fast_GET_SIZE\(init\); if \(ct->ct_length >= 0", b, "convert_array_from_object (list length)")
    need(r"n = PyBytes_GET_SIZE\(init\); if \(ct->ct_length >= 0", b, "convert_array_from_object (bytes length)")
    need(r"if \(ctitem->ct_flags & CT_IS_BOOL\) if \(must_be_array_of_zero_or_one\(srcdata, n\) < 0\) return -1; "
         r"memcpy\(data, srcdata, n\); return 0;", b, "convert_array_from_object (bytes copy)")
    em = IntEmitter({"n": ("n", "int"), "ct->ct_length": ("ctLength", "int")})
    d("caTooMany", "(n ctLength : Int)", "Bool", too[0], em.cond(parse(too[0])))
    d("caAddNul", "(n ctLength : Int)", "Bool", nul[0] + "  (then n++)", em.cond(parse(nul[0])))

    # ---- sizeof
    b = function_body(src, "direct_sizeof_cdata")
    a = need(r"^Py_ssize_t size; if \(cd->c_type->ct_flags & CT_ARRAY\) size = (?P<arr>[^;]*); else \{ size = (?P<dflt>[^;]*); "
             r"if \(cd->c_type->ct_flags & \(CT_STRUCT \| CT_UNION\)\) size = _cdata_var_byte_size\(cd\); "
             r"if \((?P<fb>[^{}]*?)\) size = cd->c_type->ct_size; \} return size;$", b, "direct_sizeof_cdata")
    em = IntEmitter({"array_length": ("arrayLength", "int"), "cd->c_type->ct_itemdescr->ct_size": ("itemsize", "int"),
                     "size": ("size", "int")})
    d("szArray", "(arrayLength itemsize : Int)", "Int", a["arr"],
      em.term(parse(a["arr"].replace("get_array_length(cd)", "array_length"))))
    d("szDefault", "", "Int", "size = " + a["dflt"], em.term(parse(a["dflt"])))
    d("szFallback", "(size : Int)", "Bool", a["fb"], em.cond(parse(a["fb"])))
    b = function_body(src, "_cdata_var_byte_size")
    expected = ("if (!CDataOwn_Check(cd)) return -1; if (cd->c_type->ct_flags & CT_IS_PTR_TO_OWNED) { cd = (CDataObject *)"
                "((CDataObject_own_structptr *)cd)->structobj; } if (cd->c_type->ct_flags_mut & CT_WITH_VAR_ARRAY) { "
                "return ((CDataObject_own_length *)cd)->length; } return -1;")
    if b != expected:
        raise CExprError("_cdata_var_byte_size no longer has the modelled shape: %r" % b)
    g["_cdata_var_byte_size"] = "the length slot when CT_WITH_VAR_ARRAY, else -1"

    out.append("end CffiVerif.Generated.InitExprs")
    return "\n".join(out) + "\n", g


def translator():
    import common
    text, g = generate(common.REPO)
    return common.write_generated("InitExprs", text, g)


if __name__ == "__main__":
    print(generate(sys.argv[1] if len(sys.argv) > 1 else "/repo")[0])
