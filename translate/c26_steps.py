"""Regenerate CffiVerif/Generated/InitOnceSteps.lean from the working tree: the statement skeleton of
`FFI.init_once` (src/cffi/api.py, via `ast`) and of `ffi_init_once` (src/c/ffi_obj.c), as the ordered list of
the abstract steps the transition system of Model/InitOnce.lean is made of.

Python, exactly this shape (anything else raises `Unsupported`):
    try: x = self._init_once_cache[tag]                                        -> lookup
    except KeyError: x = self._init_once_cache.setdefault(tag, (False, allocate_lock()))   -> setdefaultPending
    if x[0]: return x[1]                                                       -> fastReturn
    with x[1]:                                                                 -> acquire
        x = self._init_once_cache[tag]; if x[0]: return x[1]                   -> recheck
        result = func()                                                        -> callF
        self._init_once_cache[tag] = (True, result)                            -> store   (wherever it stands)
    <end of the with block>                                                    -> release
    return result                                                              -> ret
The lock being a `with` context manager it is released when `func()` raises; the store is skipped on a raise iff
no try/except/finally surrounds the call.

C: the same steps located by their calls, ordered by position in the function body: `PyDict_GetItemRef(cache, tag,
&tup)`, `PyTuple_Pack(2, Py_False, x)` + `PyObject_CallMethod(cache, "setdefault", "OO", tag, x)`,
`if (PyTuple_GET_ITEM(tup, 0) == Py_True) {… return res; }`, `PyThread_acquire_lock(lock, WAIT_LOCK)` (between
Py_BEGIN/END_ALLOW_THREADS), `x = PyDict_GetItem(cache, tag)` + `if (x != NULL && PyTuple_GET_ITEM(x, 0) ==
Py_True)`, `res = PyObject_CallFunction(func, "")` in its else branch, `PyTuple_Pack(2, Py_True, res)` +
`PyDict_SetItem(cache, tag, tup)` inside `if (res != NULL) {`, `PyThread_release_lock(lock);` (unconditional iff it
is a top-level statement of the function), final `return res;`.
"""
import ast
import os
import re

import common
from cexpr import function_body, strip_c_comments, CExprError
from pyexpr import Unsupported, expect, find_function

CACHE_GET = "x = self._init_once_cache[tag]"
STORE = "self._init_once_cache[tag] = (True, result)"


def _is(st, source):
    return ast.unparse(st) == ast.unparse(ast.parse(source).body[0])


def _fast_return(st):
    return (isinstance(st, ast.If) and ast.unparse(st.test) == "x[0]" and not st.orelse and len(st.body) == 1
            and _is(st.body[0], "return x[1]"))


def extract_python():
    tree = ast.parse(open(os.path.join(common.REPO, "src", "cffi", "api.py")).read())
    fn = find_function(tree, "FFI.init_once")
    if [a.arg for a in fn.args.args] != ["self", "func", "tag"]:
        raise Unsupported("FFI.init_once: parameters changed")
    body = [s for s in fn.body if not (isinstance(s, ast.Expr) and isinstance(s.value, ast.Constant))]
    steps = []
    if len(body) < 4:
        raise Unsupported("FFI.init_once: expected try / if / with / ... / return, found %d statements" % len(body))
    tr = body[0]
    if not (isinstance(tr, ast.Try) and len(tr.body) == 1 and len(tr.handlers) == 1 and not tr.orelse and not tr.finalbody
            and _is(tr.body[0], CACHE_GET) and tr.handlers[0].type is not None
            and ast.unparse(tr.handlers[0].type) == "KeyError" and len(tr.handlers[0].body) == 1):
        raise Unsupported("FFI.init_once: the cache lookup `try: x = cache[tag] except KeyError: ...` changed shape")
    steps.append(".lookup")
    expect(tr.handlers[0].body[0], "x = self._init_once_cache.setdefault(tag, (False, allocate_lock()))", "the setdefault")
    steps.append(".setdefaultPending")
    if not _fast_return(body[1]):
        raise Unsupported("FFI.init_once: `if x[0]: return x[1]` after the lookup changed shape: `%s`" % ast.unparse(body[1])[:80])
    steps.append(".fastReturn")
    w = body[2]
    if not (isinstance(w, ast.With) and len(w.items) == 1 and ast.unparse(w.items[0].context_expr) == "x[1]"
            and w.items[0].optional_vars is None):
        raise Unsupported("FFI.init_once: `with x[1]:` changed shape: `%s`" % ast.unparse(w).split("\n")[0])
    steps.append(".acquire")
    guarded = False          # a try statement around the call would change what a raise does
    wb = list(w.body)
    if not (len(wb) >= 3 and _is(wb[0], CACHE_GET) and _fast_return(wb[1])):
        raise Unsupported("FFI.init_once: the re-check under the lock changed shape")
    steps.append(".recheck")
    for st in wb[2:]:
        if _is(st, "result = func()"):
            steps.append(".callF")
        elif _is(st, STORE):
            steps.append(".store")
        else:
            if isinstance(st, ast.Try):
                guarded = True
            raise Unsupported("FFI.init_once: statement inside the with block not modelled: `%s`" % ast.unparse(st)[:80])
    steps.append(".release")
    for st in body[3:]:
        if _is(st, STORE):
            steps.append(".store")
        elif _is(st, "return result"):
            steps.append(".ret")
        else:
            raise Unsupported("FFI.init_once: statement after the with block not modelled: `%s`" % ast.unparse(st)[:80])
    for need in (".callF", ".store", ".ret"):
        if steps.count(need) != 1:
            raise Unsupported("FFI.init_once: expected exactly one %s, found %d" % (need, steps.count(need)))
    if steps[-1] != ".ret":
        raise Unsupported("FFI.init_once does not end with `return result`")
    return {"steps": steps, "release_on_raise": True, "store_only_on_success": not guarded}


C_MARKS = [
    (".lookup", r"PyDict_GetItemRef\s*\(\s*cache\s*,\s*tag\s*,\s*&tup\s*\)"),
    (".setdefaultPending", r"PyObject_CallMethod\s*\(\s*cache\s*,\s*\"setdefault\"\s*,\s*\"OO\"\s*,\s*tag\s*,\s*x\s*\)"),
    (".fastReturn", r"if\s*\(\s*PyTuple_GET_ITEM\s*\(\s*tup\s*,\s*0\s*\)\s*==\s*Py_True\s*\)\s*\{[^}]*return\s+res\s*;[^}]*\}"),
    (".acquire", r"PyThread_acquire_lock\s*\(\s*lock\s*,\s*WAIT_LOCK\s*\)\s*;"),
    (".recheck", r"x\s*=\s*PyDict_GetItem\s*\(\s*cache\s*,\s*tag\s*\)\s*;\s*if\s*\(\s*x\s*!=\s*NULL\s*&&\s*PyTuple_GET_ITEM\s*\(\s*x\s*,\s*0\s*\)\s*==\s*Py_True\s*\)"),
    (".callF", r"res\s*=\s*PyObject_CallFunction\s*\(\s*func\s*,\s*\"\"\s*\)\s*;"),
    (".store", r"PyDict_SetItem\s*\(\s*cache\s*,\s*tag\s*,\s*tup\s*\)"),
    (".release", r"PyThread_release_lock\s*\(\s*lock\s*\)\s*;"),
]


def _depth_at(body, pos):
    d = 0
    for ch in body[:pos]:
        d += {"{": 1, "}": -1}.get(ch, 0)
    return d


def extract_c():
    src = open(os.path.join(common.REPO, "src", "c", "ffi_obj.c")).read()
    try:
        body = strip_c_comments(function_body(src, "static PyObject *ffi_init_once"))
    except CExprError as e:
        raise Unsupported("ffi_init_once: %s" % e)
    found = []
    pos = {}
    for name, rx in C_MARKS:
        ms = list(re.finditer(rx, body))
        if len(ms) != 1:
            raise Unsupported("ffi_init_once: expected exactly one %s (`%s`), found %d" % (name, rx[:40], len(ms)))
        pos[name] = ms[0]
        found.append((ms[0].start(), name))
    m = list(re.finditer(r"return\s+res\s*;", body))
    if not m or body[m[-1].end():].strip() != "":
        raise Unsupported("ffi_init_once does not end with `return res;`")
    found.append((m[-1].start(), ".ret"))
    steps = [n for _, n in sorted(found)]
    # pending tuple / result tuple
    if not re.search(r"PyTuple_Pack\s*\(\s*2\s*,\s*Py_False\s*,\s*x\s*\)", body[:pos[".setdefaultPending"].start()]):
        raise Unsupported("ffi_init_once: the (False, lock) tuple for setdefault not found")
    seg = body[pos[".callF"].end():pos[".store"].start()]
    store_guard = bool(re.search(r"if\s*\(\s*res\s*!=\s*NULL\s*\)\s*\{", seg)) and \
        bool(re.search(r"PyTuple_Pack\s*\(\s*2\s*,\s*Py_True\s*,\s*res\s*\)", seg)) and seg.count("}") == 0
    # the call is in the else branch of the re-check
    between = body[pos[".recheck"].end():pos[".callF"].start()]
    if not re.search(r"\}\s*else\s*\{\s*$", between) or between.count("{") != 2 or between.count("}") != 1:
        raise Unsupported("ffi_init_once: `func()` is no longer called in the else branch of the re-check under the lock")
    a = pos[".acquire"]
    gil = bool(re.search(r"Py_BEGIN_ALLOW_THREADS\s*$", body[:a.start()])) and \
        bool(re.match(r"\s*Py_END_ALLOW_THREADS", body[a.end():]))
    rel = pos[".release"]
    pre = body[:rel.start()].rstrip()
    unconditional = _depth_at(body, rel.start()) == 0 and pre[-1:] in ("}", ";")
    return {"steps": steps, "release_unconditional": unconditional, "store_only_on_success": store_guard,
            "acquire_releases_gil": gil}


def lean_text():
    py, c = extract_python(), extract_c()
    lst = lambda xs: "[" + ", ".join(xs) + "]"
    b = lambda x: "true" if x else "false"
    text = '''/-! Extracted by /verif/translate/c26_steps.py from `FFI.init_once` (src/cffi/api.py) and `ffi_init_once`
(src/c/ffi_obj.c) of the working tree: the statement skeletons in program order, as the abstract steps of
`Model/InitOnce.lean` (`C26.steps_are_source` ties the model's control flow to them). -/
namespace CffiVerif.Generated.InitOnceSteps

inductive Step
  | lookup              -- read `cache[tag]`
  | setdefaultPending   -- `setdefault(tag, (False, lock))`
  | fastReturn          -- `if x[0]: return x[1]`
  | acquire             -- `with x[1]:` / `PyThread_acquire_lock`
  | recheck             -- re-read `cache[tag]` under the lock, return if done
  | callF               -- `func()`
  | store               -- `cache[tag] = (True, result)`
  | release             -- end of the `with` block / `PyThread_release_lock`
  | ret                 -- `return result`
deriving DecidableEq, Repr

/-- `FFI.init_once`, in program order. -/
def python : List Step := %s
/-- the lock is released when `func()` raises (`with` statement) -/
def pythonReleaseOnRaise : Bool := %s
/-- nothing is stored when `func()` raises (no try statement around the call) -/
def pythonStoreOnlyOnSuccess : Bool := %s

/-- `ffi_init_once`, in program order. -/
def c : List Step := %s
/-- `PyThread_release_lock(lock);` is a top-level statement (reached on the error path too) -/
def cReleaseUnconditional : Bool := %s
/-- `PyDict_SetItem` is inside `if (res != NULL)` -/
def cStoreOnlyOnSuccess : Bool := %s
/-- the wait for the lock is between `Py_BEGIN/END_ALLOW_THREADS` -/
def cAcquireReleasesGil : Bool := %s

end CffiVerif.Generated.InitOnceSteps
''' % (lst(py["steps"]), b(py["release_on_raise"]), b(py["store_only_on_success"]),
       lst(c["steps"]), b(c["release_unconditional"]), b(c["store_only_on_success"]), b(c["acquire_releases_gil"]))
    return text, {"python": py, "c": c}


def run():
    text, d = lean_text()
    return common.write_generated("InitOnceSteps", text, "python=%s c=%s flags=%s" % (
        d["python"]["steps"], d["c"]["steps"],
        {k: v for k, v in list(d["python"].items()) + list(d["c"].items()) if k != "steps"}))


if __name__ == "__main__":
    print(lean_text()[0])
