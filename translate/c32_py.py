"""Regenerate CffiVerif/Generated/FlattenPy.lean from the working tree:

  * src/cffi/ffiplatform.py `_flatten`: the `isinstance` dispatch in its order, per branch the format string of
    `f.write(FMT % ARGS)` (`'%ds%s'`, `'%dd'`, `'%dl'`, `'%di'`) with its arguments, `keys = sorted(x.keys())`, what
    the two loops flatten and in which order, the final `raise TypeError` -> `def dispatch`, `def write_*`,
    `def dict_keys_sorted`, `def dict_loop`, `def list_loop`;
  * src/cffi/verifier.py `Verifier.__init__`, the branch that computes the module name: the list of key parts and
    the separator of the join -> `def key_text`; the two CRC inputs `key[0::2]` / `key[1::2]`, the mask, `hex`, the
    `lstrip` / `rstrip` character sets and the name format string with its arguments -> `def name_of`.
    `flattened_kwds = ffiplatform.flatten(kwds)` and `key = key.encode('utf-8')` are checked for their exact shape.

Expressions are translated by `PureTranslator` of translate/c35_py.py (an extension of translate/pyexpr.py), extended
here with list displays, `+` on lists, `sep.join(...)`, `s[a::2]`, `n & 0xffffffff`, `hex`, `lstrip`/`rstrip` and
`FMT % ARGS`.  Anything else raises `Unsupported`.
"""
import ast
import os
import re

import common
import pyexpr
from pyexpr import Unsupported, expect, find_function, dotted
from c35_py import PureTranslator, cps_lit

pyexpr.LEAN_TYPE.setdefault("cpslist", "List Str")
pyexpr.LEAN_TYPE.setdefault("nat", "Nat")
pyexpr.LEAN_TYPE.setdefault("bytes", "List Nat")
pyexpr.LEAN_TYPE.setdefault("optcps", "Option Str")


def fmt_pieces(fmt):
    """'%ds%s' -> ['.d', '.lit [115]', '.s'] ; only %d and %s fields."""
    out = []
    for m in re.finditer(r"%(.)|([^%]+)", fmt):
        if m.group(2) is not None:
            out.append(".lit %s" % cps_lit(m.group(2)))
        elif m.group(1) == "d":
            out.append(".d")
        elif m.group(1) == "s":
            out.append(".s")
        else:
            raise Unsupported("format field %%%s" % m.group(1))
    return out


class KeyTranslator(PureTranslator):
    def expr(self, node, env, pre):
        src = ast.unparse(node)
        if src in self.attrs:                       # whole sub-expressions that are inputs of the model
            return self.attrs[src]
        if isinstance(node, ast.List):
            items = [self.expr(e, env, pre) for e in node.elts]
            if any(t != "cps" for _, t in items):
                raise Unsupported("list display with elements %r" % ([t for _, t in items],))
            return "[" + ", ".join(v for v, _ in items) + "]", "cpslist"
        if isinstance(node, ast.BinOp) and isinstance(node.op, ast.Add):
            a, ta = self.expr(node.left, env, pre)
            b, tb = self.expr(node.right, env, pre)
            if ta == tb == "cpslist":
                return "(%s ++ %s)" % (a, b), "cpslist"
            raise Unsupported("+ on (%s, %s)" % (ta, tb))
        if isinstance(node, ast.BinOp) and isinstance(node.op, ast.BitAnd):
            a, ta = self.expr(node.left, env, pre)
            if ta == "nat" and isinstance(node.right, ast.Constant) and isinstance(node.right.value, int) \
                    and node.right.value > 0 and (node.right.value + 1) & node.right.value == 0:
                return "(%s %% %d)" % (a, node.right.value + 1), "nat"      # n & (2^k - 1) = n mod 2^k
            raise Unsupported("& : %s" % src)
        if isinstance(node, ast.BinOp) and isinstance(node.op, ast.Mod) and isinstance(node.left, ast.Constant) \
                and isinstance(node.left.value, str):
            args = node.right.elts if isinstance(node.right, ast.Tuple) else [node.right]
            vals = [self.expr(a, env, pre) for a in args]
            largs = []
            for v, t in vals:
                if t == "cps":
                    largs.append(".str %s" % v)
                elif t == "nat":
                    largs.append(".int ((%s : Nat) : Int)" % v)
                elif t == "int":
                    largs.append(".int %s" % v)
                else:
                    raise Unsupported("format argument of type %s" % t)
            return "(format [%s] [%s])" % (", ".join(fmt_pieces(node.left.value)), ", ".join(largs)), "optcps"
        if isinstance(node, ast.Subscript):
            v, tv = self.expr(node.value, env, pre)
            sl = node.slice
            if tv == "bytes" and isinstance(sl, ast.Slice) and sl.upper is None \
                    and isinstance(sl.lower, ast.Constant) and isinstance(sl.lower.value, int) and sl.lower.value >= 0 \
                    and isinstance(sl.step, ast.Constant) and sl.step.value == 2:
                return "(sliceStep2 %d %s)" % (sl.lower.value, v), "bytes"
        return super().expr(node, env, pre)


def h_join(tr, node, env, pre, receiver):
    if receiver is None or receiver[1] != "cps" or len(node.args) != 1:
        raise Unsupported("join: %s" % ast.unparse(node))
    a, ta = tr.expr(node.args[0], env, pre)
    if ta != "cpslist":
        raise Unsupported("join of %s" % ta)
    return "(join %s %s)" % (receiver[0], a), "cps", False


def h_strip(which):
    def h(tr, node, env, pre, receiver):
        if receiver is None or receiver[1] != "cps" or len(node.args) != 1 \
                or not (isinstance(node.args[0], ast.Constant) and isinstance(node.args[0].value, str)):
            raise Unsupported("%s: %s" % (which, ast.unparse(node)))
        return "(%s %s %s)" % (which, cps_lit(node.args[0].value), receiver[0]), "cps", False
    return h


def h_hex(tr, node, env, pre, receiver):
    a, ta = tr.expr(node.args[0], env, pre)
    if len(node.args) != 1 or ta != "nat":
        raise Unsupported("hex of %s" % ta)
    return "(pyHex %s)" % a, "cps", False


def h_crc(tr, node, env, pre, receiver):
    a, ta = tr.expr(node.args[0], env, pre)
    if len(node.args) != 1 or ta != "bytes":
        raise Unsupported("crc32 of %s" % ta)
    return "(crc %s)" % a, "nat", False


KEY_CALLS = {".join": h_join, ".lstrip": h_strip("lstrip"), ".rstrip": h_strip("rstrip"), "hex": h_hex,
             "binascii.crc32": h_crc}


def _read(rel):
    return open(os.path.join(common.REPO, "src", "cffi", rel)).read()


# ---------------------------------------------------------------- _flatten

def gen_flatten(tree):
    fn = find_function(tree, "_flatten")
    if [a.arg for a in fn.args.args] != ["x", "f"]:
        raise Unsupported("_flatten: parameters changed")
    body = [s for s in fn.body if not (isinstance(s, ast.Expr) and isinstance(s.value, ast.Constant))]
    if len(body) != 1 or not isinstance(body[0], ast.If):
        raise Unsupported("_flatten is no longer one if/elif chain")
    out, dispatch = [], []
    node = body[0]
    argmap = {"len(x)": ("(x.length : Nat)", "nat"), "len(keys)": ("(n : Nat)", "nat")}

    def write_of(st, params, xtype):
        """`f.write(FMT % ARGS)` -> the Lean format call."""
        if not (isinstance(st, ast.Expr) and isinstance(st.value, ast.Call) and ast.unparse(st.value.func) == "f.write"
                and len(st.value.args) == 1):
            raise Unsupported("_flatten: expected f.write(...), found `%s`" % ast.unparse(st))
        attrs = {"len(x)": ("(n : Nat)", "nat") if xtype != "cps" else ("(x.length : Nat)", "nat"),
                 "len(keys)": ("(n : Nat)", "nat")}
        if xtype is not None:
            attrs["x"] = ("x", xtype)
        tr = KeyTranslator({}, attrs=attrs, calls={})
        v, t = tr.expr(st.value.args[0], {}, [])
        if t != "optcps":
            raise Unsupported("_flatten: f.write of %s" % t)
        return v

    while True:
        test = node.test
        if not (isinstance(test, ast.Call) and ast.unparse(test.func) == "isinstance" and len(test.args) == 2
                and ast.unparse(test.args[0]) == "x"):
            raise Unsupported("_flatten: branch test `%s`" % ast.unparse(test))
        ty = ast.unparse(test.args[1])
        dispatch.append(ty)
        b = node.body
        if ty == "str":
            if len(b) != 1:
                raise Unsupported("_flatten: the str branch has %d statements" % len(b))
            out.append("def write_str (x : Str) : Option Str := %s\n" % write_of(b[0], None, "cps"))
        elif ty == "dict":
            if len(b) != 3:
                raise Unsupported("_flatten: the dict branch has %d statements" % len(b))
            src = ast.unparse(b[0])
            if src == "keys = sorted(x.keys())":
                srt = "true"
            elif src in ("keys = list(x.keys())", "keys = x.keys()", "keys = list(x)"):
                srt = "false"
            else:
                raise Unsupported("_flatten: dict keys are obtained by `%s`" % src)
            out.append("def dict_keys_sorted : Bool := %s\n" % srt)
            out.append("def write_dict_head (n : Nat) : Option Str := %s\n" % write_of(b[1], None, None))
            loop = b[2]
            if not (isinstance(loop, ast.For) and ast.unparse(loop.target) == "key" and ast.unparse(loop.iter) == "keys"
                    and not loop.orelse):
                raise Unsupported("_flatten: the dict loop changed shape")
            items = []
            for st in loop.body:
                m = re.fullmatch(r"_flatten\((.+), f\)", ast.unparse(st))
                if not m:
                    raise Unsupported("_flatten: dict loop statement `%s`" % ast.unparse(st))
                items.append(m.group(1))
            out.append("def dict_loop : List String := [%s]\n" % ", ".join('"%s"' % i for i in items))
        elif ty in ("(list, tuple)", "(tuple, list)", "list", "tuple"):
            if len(b) != 2:
                raise Unsupported("_flatten: the list branch has %d statements" % len(b))
            out.append("def write_list_head (n : Nat) : Option Str := %s\n" % write_of(b[0], None, None))
            loop = b[1]
            if not (isinstance(loop, ast.For) and ast.unparse(loop.target) == "value" and ast.unparse(loop.iter) == "x"
                    and not loop.orelse and len(loop.body) == 1):
                raise Unsupported("_flatten: the list loop changed shape")
            m = re.fullmatch(r"_flatten\((.+), f\)", ast.unparse(loop.body[0]))
            if not m:
                raise Unsupported("_flatten: list loop statement `%s`" % ast.unparse(loop.body[0]))
            out.append('def list_loop : List String := ["%s"]\n' % m.group(1))
        elif ty == "int_or_long":
            if len(b) != 1:
                raise Unsupported("_flatten: the int branch has %d statements" % len(b))
            out.append("def write_int (x : Int) : Option Str := %s\n" % write_of(b[0], None, "int"))
        else:
            raise Unsupported("_flatten: a branch for %s" % ty)
        if len(node.orelse) == 1 and isinstance(node.orelse[0], ast.If):
            node = node.orelse[0]
            continue
        if not (len(node.orelse) == 1 and isinstance(node.orelse[0], ast.Raise)
                and ast.unparse(node.orelse[0]).startswith("raise TypeError(")):
            raise Unsupported("_flatten: the chain no longer ends in `else: raise TypeError(...)`")
        break
    out.insert(0, "def dispatch : List String := [%s]\n" % ", ".join('"%s"' % d for d in dispatch))
    fl = find_function(tree, "flatten")
    fb = [s for s in fl.body if not (isinstance(s, ast.Expr) and isinstance(s.value, ast.Constant))]
    if [ast.unparse(s) for s in fb] != ["f = cStringIO.StringIO()", "_flatten(x, f)", "return f.getvalue()"]:
        raise Unsupported("ffiplatform.flatten changed shape")
    return "\n".join(out), dispatch


# ---------------------------------------------------------------- Verifier.__init__

def gen_key(tree):
    init = find_function(tree, "Verifier.__init__")
    stmts = init.body
    fk = [s for s in stmts if isinstance(s, ast.If) and ast.unparse(s.test) == "not modulename"]
    if len(fk) != 1 or len(fk[0].body) != 1 or fk[0].orelse:
        raise Unsupported("Verifier.__init__: `if not modulename:` block changed shape")
    expect(fk[0].body[0], "flattened_kwds = ffiplatform.flatten(kwds)", "Verifier.__init__, flattening of the keywords")
    blk = [s for s in stmts if isinstance(s, ast.If) and ast.unparse(s.test) == "modulename"]
    if len(blk) != 1:
        raise Unsupported("Verifier.__init__: `if modulename:` block not found")
    b = blk[0].orelse
    if len(b) != 7:
        raise Unsupported("Verifier.__init__: the name computation has %d statements, expected 7" % len(b))
    attrs = {"'%d.%d' % sys.version_info[:2]": ("pyver", "cps"),
             "__version_verifier_modules__": ("vermod", "cps"),
             "preamble": ("preamble", "cps"), "flattened_kwds": ("flattened_kwds", "cps"),
             "ffi._cdefsources": ("cdefsources", "cpslist")}
    tr = KeyTranslator({}, attrs=attrs, calls=KEY_CALLS)
    if not (isinstance(b[0], ast.Assign) and ast.unparse(b[0].targets[0]) == "key"):
        raise Unsupported("Verifier.__init__: first statement of the name computation is not `key = ...`")
    pre = []
    kv, kt = tr.expr(b[0].value, {}, pre)
    if kt != "cps" or pre:
        raise Unsupported("key is of type %s" % kt)
    key_def = ("def key_text (pyver vermod preamble flattened_kwds : Str) (cdefsources : List Str) : Str :=\n  %s\n" % kv)
    if ast.unparse(b[1]) != "if sys.version_info >= (3,):\n    key = key.encode('utf-8')":
        raise Unsupported("Verifier.__init__: the encoding of the key changed shape: %s" % ast.unparse(b[1]))
    tr2 = KeyTranslator({}, attrs={"key": ("key", "bytes"), "tag": ("tag", "cps"),
                                   "self._vengine._class_key": ("class_key", "cps")}, calls=KEY_CALLS)
    env = {}
    lets = []
    want = ["k1", "k1", "k2", "k2", "modulename"]
    for st, name in zip(b[2:], want):
        if not (isinstance(st, ast.Assign) and len(st.targets) == 1 and ast.unparse(st.targets[0]) == name):
            raise Unsupported("Verifier.__init__: expected an assignment to %s, found `%s`" % (name, ast.unparse(st)))
        pre = []
        v, t = tr2.expr(st.value, env, pre)
        if pre:
            raise Unsupported("raising call in the name computation")
        if name == "modulename":
            if t != "optcps":
                raise Unsupported("modulename is of type %s" % t)
            lets.append("  %s" % v)
        else:
            if t != "cps":
                raise Unsupported("%s is of type %s" % (name, t))
            lets.append("  let %s : Str := %s" % (name, v))
            env[name] = (name, "cps")
    name_def = ("def name_of (crc : List Nat → Nat) (tag class_key : Str) (key : List Nat) : Option Str :=\n"
                + "\n".join(lets) + "\n")
    return key_def + "\n" + name_def


def lean_text():
    parts = ["import CffiVerif.Model.PyText\n",
             "/-! Translation of `_flatten` (src/cffi/ffiplatform.py) and of the module-name computation of\n"
             "`Verifier.__init__` (src/cffi/verifier.py); see translate/c32_py.py. -/",
             "namespace CffiVerif.Generated.FlattenPy\nopen CffiVerif.PyText\n"]
    fl, dispatch = gen_flatten(ast.parse(_read("ffiplatform.py")))
    parts.append(fl)
    parts.append(gen_key(ast.parse(_read("verifier.py"))))
    parts.append("end CffiVerif.Generated.FlattenPy\n")
    return "\n".join(parts), dispatch


def run():
    text, dispatch = lean_text()
    return common.write_generated("FlattenPy", text,
                                  "_flatten dispatch %s with its format strings; key parts, CRC halves and name format of Verifier.__init__"
                                  % "/".join(dispatch))


if __name__ == "__main__":
    print(lean_text()[0])
