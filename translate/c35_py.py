"""Regenerate CffiVerif/Generated/PkgConfigPy.lean from src/cffi/pkgconfig.py of the working tree:

  * the six local getters of `flags_from_pkgconfig` (`get_include_dirs` ... `get_other_libs`): each must be
    `return [ELT for x in string.split() if COND]`; ELT (`x[2:]`, `x`, `_macro(x)`) and COND (`x.startswith('-I')`,
    `not ... and not ...`) are translated expression by expression -> `def get_* (toks : List Str)`;
  * the `_macro` helper (drop two characters, `'=' in x`, `tuple(x.split("=", 1))`, `(x, None)`) -> `def macro_`;
  * the dict literal of `kwargs(libname)`: which getter on which of the two outputs feeds which keyword, in dict
    order -> `def kw_<keyword>`, `def kwargs_keys`; the two `call(libname, flag)` lines and the outer loop are
    checked for their exact shape;
  * `merge_flags`: the loop body (`key not in cfg1` -> `cfg1[key] = value`, else `cfg1[key].extend(value)`, the two
    `TypeError` guards in between) -> `def merge_step`.

Expressions go through translate/pyexpr.py's `Translator` (names, `not`/`and`/`or`, calls through tables), extended
here with what these functions need: `str` constants as code point lists, `x[n:]`, `'c' in x`, tuples, `None`, and a
statement translator without the `Except` monad (these functions raise nothing).  Anything else raises
`Unsupported`: a function that changes shape is never translated to something approximately right.
"""
import ast
import os

import common
import pyexpr
from pyexpr import Unsupported, expect, find_function, dotted

pyexpr.LEAN_TYPE.setdefault("cps", "Str")
pyexpr.LEAN_TYPE.setdefault("macro", "Str × Option Str")


def cps_lit(s):
    return "[" + ", ".join(str(ord(c)) for c in s) + "]"


class PureTranslator(pyexpr.Translator):
    """Expressions over `str` (= `Str`, a list of code points); statements without exceptions."""

    def expr(self, node, env, pre):
        if isinstance(node, ast.Constant) and isinstance(node.value, str):
            return "(%s : Str)" % cps_lit(node.value), "cps"
        if isinstance(node, ast.Constant) and node.value is None:
            return "none", "none"
        if isinstance(node, ast.Subscript):
            v, tv = self.expr(node.value, env, pre)
            sl = node.slice
            if tv == "cps" and isinstance(sl, ast.Slice) and sl.upper is None and sl.step is None \
                    and isinstance(sl.lower, ast.Constant) and isinstance(sl.lower.value, int) and sl.lower.value >= 0:
                return "(List.drop %d %s)" % (sl.lower.value, v), "cps"
            raise Unsupported("subscript %s" % ast.unparse(node))
        if isinstance(node, ast.Compare) and len(node.ops) == 1 and isinstance(node.ops[0], (ast.In, ast.NotIn)) \
                and isinstance(node.left, ast.Constant) and isinstance(node.left.value, str):
            if len(node.left.value) != 1:
                raise Unsupported("`in` with a needle that is not one character")
            h, th = self.expr(node.comparators[0], env, pre)
            if th != "cps":
                raise Unsupported("`in` on %s" % th)
            r = "(contains %d %s)" % (ord(node.left.value), h)
            return (r if isinstance(node.ops[0], ast.In) else "(!%s)" % r), "bool"
        if isinstance(node, ast.Tuple):
            if len(node.elts) != 2:
                raise Unsupported("tuple of %d elements" % len(node.elts))
            a, ta = self.expr(node.elts[0], env, pre)
            b, tb = self.expr(node.elts[1], env, pre)
            if (ta, tb) == ("cps", "none"):
                return "(%s, (none : Option Str))" % a, "macro"
            if (ta, tb) == ("cps", "cps"):
                return "(%s, some %s)" % (a, b), "macro"
            raise Unsupported("tuple of (%s, %s)" % (ta, tb))
        return super().expr(node, env, pre)

    def pure_block(self, stmts, env):
        if not stmts:
            raise Unsupported("control can fall off the end of the function")
        st, rest = stmts[0], stmts[1:]
        if isinstance(st, ast.Expr) and isinstance(st.value, ast.Constant):
            return self.pure_block(rest, env)
        pre = []
        if isinstance(st, ast.Return):
            if st.value is None or rest:
                raise Unsupported("bare return / code after return")
            v, t = self.expr(st.value, env, pre)
            res = (v, t)
        elif isinstance(st, ast.Assign):
            if len(st.targets) != 1 or not isinstance(st.targets[0], ast.Name):
                raise Unsupported("assignment to something else than one local name")
            v, t = self.expr(st.value, env, pre)
            name = st.targets[0].id
            env2 = dict(env)
            env2[name] = (name, t)
            body, tb = self.pure_block(rest, env2)
            res = ("(let %s : %s := %s;\n   %s)" % (name, pyexpr.LEAN_TYPE[t], v, body), tb)
        elif isinstance(st, ast.If):
            if rest:
                raise Unsupported("code after an if/else")
            c, tc = self.expr(st.test, env, pre)
            if tc != "bool" or not st.orelse:
                raise Unsupported("`if` on a non-boolean, or without else")
            a, ta = self.pure_block(st.body, env)
            b, tb = self.pure_block(st.orelse, env)
            if ta != tb:
                raise Unsupported("branches of different types (%s, %s)" % (ta, tb))
            res = ("(if %s then\n   %s\n  else\n   %s)" % (c, a, b), ta)
        else:
            raise Unsupported("statement %s" % type(st).__name__)
        if pre:
            raise Unsupported("a raising call in a function translated without exceptions")
        return res


# ---------------------------------------------------------------- call tables

def h_startswith(tr, node, env, pre, receiver):
    if receiver is None or receiver[1] != "cps" or len(node.args) != 1 \
            or not (isinstance(node.args[0], ast.Constant) and isinstance(node.args[0].value, str)):
        raise Unsupported("startswith: %s" % ast.unparse(node))
    return "(startsWith %s %s)" % (cps_lit(node.args[0].value), receiver[0]), "bool", False


def h_tuple(tr, node, env, pre, receiver):
    """`tuple(x.split("=", 1))` under `'=' in x`: (text before the first '=', text after it)."""
    if len(node.args) != 1:
        raise Unsupported("tuple(): %s" % ast.unparse(node))
    c = node.args[0]
    if not (isinstance(c, ast.Call) and isinstance(c.func, ast.Attribute) and c.func.attr == "split"
            and len(c.args) == 2 and not c.keywords
            and isinstance(c.args[0], ast.Constant) and isinstance(c.args[0].value, str) and len(c.args[0].value) == 1
            and isinstance(c.args[1], ast.Constant) and c.args[1].value == 1):
        raise Unsupported("tuple() of something else than x.split(<one character>, 1): %s" % ast.unparse(node))
    recv, tr_ = tr.expr(c.func.value, env, pre)
    if tr_ != "cps":
        raise Unsupported("split on %s" % tr_)
    sep = ord(c.args[0].value)
    return "((split1 %d %s).1, some (split1 %d %s).2)" % (sep, recv, sep, recv), "macro", False


def h_macro(tr, node, env, pre, receiver):
    if len(node.args) != 1:
        raise Unsupported("_macro(): %s" % ast.unparse(node))
    a, ta = tr.expr(node.args[0], env, pre)
    if ta != "cps":
        raise Unsupported("_macro on %s" % ta)
    return "(macro_ %s)" % a, "macro", False


CALLS = {".startswith": h_startswith, "tuple": h_tuple, "_macro": h_macro}


# ---------------------------------------------------------------- pieces

def _read():
    return open(os.path.join(common.REPO, "src", "cffi", "pkgconfig.py")).read()


def _local(fn, name):
    node = next((n for n in fn.body if isinstance(n, ast.FunctionDef) and n.name == name), None)
    if node is None:
        raise Unsupported("%s: local function %s not found" % (fn.name, name))
    return node


def _code(body):
    """Statements of a function body without docstring."""
    return [s for s in body if not (isinstance(s, ast.Expr) and isinstance(s.value, ast.Constant))]


def gen_macro(fpc):
    gm = _local(fpc, "get_macros")
    mac = _local(gm, "_macro")
    if [a.arg for a in mac.args.args] != ["x"]:
        raise Unsupported("_macro: parameters changed")
    tr = PureTranslator({}, calls=CALLS)
    body, t = tr.pure_block(_code(mac.body), {"x": ("x", "cps")})
    if t != "macro":
        raise Unsupported("_macro returns %s" % t)
    return "def macro_ (x : Str) : Str × Option Str :=\n  %s\n" % body


def gen_getter(fpc, name):
    fn = _local(fpc, name)
    if [a.arg for a in fn.args.args] != ["string"]:
        raise Unsupported("%s: parameters changed" % name)
    stmts = [s for s in _code(fn.body) if not isinstance(s, ast.FunctionDef)]
    if len(stmts) != 1 or not isinstance(stmts[0], ast.Return) or not isinstance(stmts[0].value, ast.ListComp):
        raise Unsupported("%s is no longer `return [... for x in string.split() if ...]`" % name)
    lc = stmts[0].value
    if len(lc.generators) != 1:
        raise Unsupported("%s: more than one `for`" % name)
    g = lc.generators[0]
    if ast.unparse(g.iter) != "string.split()" or ast.unparse(g.target) != "x" or len(g.ifs) != 1 or g.is_async:
        raise Unsupported("%s: the comprehension is no longer `for x in string.split() if <one condition>`" % name)
    tr = PureTranslator({"x": ("x", "cps")}, calls=CALLS)
    pre = []
    cond, tc = tr.expr(g.ifs[0], {}, pre)
    elt, te = tr.expr(lc.elt, {}, pre)
    if tc != "bool" or pre:
        raise Unsupported("%s: condition of type %s" % (name, tc))
    ret = {"cps": "List Str", "macro": "List (Str × Option Str)"}.get(te)
    if ret is None:
        raise Unsupported("%s: elements of type %s" % (name, te))
    return ("def %s (toks : List Str) : %s :=\n  (toks.filter (fun x => %s)).map (fun x => %s)\n"
            % (name, ret, cond, elt)), te


GETTERS = ["get_include_dirs", "get_library_dirs", "get_libraries", "get_macros", "get_other_cflags", "get_other_libs"]


def gen_kwargs(fpc):
    kw = _local(fpc, "kwargs")
    if [a.arg for a in kw.args.args] != ["libname"]:
        raise Unsupported("kwargs: parameters changed")
    stmts = [s for s in _code(kw.body)
             if not (isinstance(s, ast.Assign) and ast.unparse(s.targets[0]) == "fse")]    # an unused local
    if len(stmts) != 3:
        raise Unsupported("kwargs: expected two call() lines and a return, found %d statements" % len(stmts))
    expect(stmts[0], 'all_cflags = call(libname, "--cflags")', "kwargs, the --cflags call")
    expect(stmts[1], 'all_libs = call(libname, "--libs")', "kwargs, the --libs call")
    ret = stmts[2]
    if not isinstance(ret, ast.Return) or not isinstance(ret.value, ast.Dict):
        raise Unsupported("kwargs no longer returns a dict literal")
    out, keys = [], []
    for k, v in zip(ret.value.keys, ret.value.values):
        if not (isinstance(k, ast.Constant) and isinstance(k.value, str) and k.value.isidentifier()):
            raise Unsupported("kwargs: key %s" % ast.unparse(k))
        if not (isinstance(v, ast.Call) and isinstance(v.func, ast.Name) and v.func.id in GETTERS
                and len(v.args) == 1 and isinstance(v.args[0], ast.Name) and v.args[0].id in ("all_cflags", "all_libs")
                and not v.keywords):
            raise Unsupported("kwargs: value of %r is not get_*(all_cflags|all_libs): %s" % (k.value, ast.unparse(v)))
        keys.append(k.value)
        out.append("def kw_%s (all_cflags all_libs : List Str) := %s %s\n" % (k.value, v.func.id, v.args[0].id))
    if len(set(keys)) != len(keys):
        raise Unsupported("kwargs: duplicate key")
    out.append("def kwargs_keys : List String := [%s]\n" % ", ".join('"%s"' % k for k in keys))
    return "\n".join(out), keys


def check_outer_loop(fpc):
    stmts = [s for s in _code(fpc.body) if not isinstance(s, ast.FunctionDef)]
    if len(stmts) != 3:
        raise Unsupported("flags_from_pkgconfig: expected `ret = {}`, a for loop and `return ret`")
    expect(stmts[0], "ret = {}", "flags_from_pkgconfig, initialisation")
    loop = stmts[1]
    if not isinstance(loop, ast.For) or ast.unparse(loop.target) != "libname" or ast.unparse(loop.iter) != "libs" \
            or loop.orelse or len(loop.body) != 2:
        raise Unsupported("flags_from_pkgconfig: the loop over libs changed shape")
    expect(loop.body[0], "lib_flags = kwargs(libname)", "flags_from_pkgconfig, loop body")
    expect(loop.body[1], "merge_flags(ret, lib_flags)", "flags_from_pkgconfig, loop body")
    expect(stmts[2], "return ret", "flags_from_pkgconfig, result")


def gen_merge(tree):
    fn = find_function(tree, "merge_flags")
    if [a.arg for a in fn.args.args] != ["cfg1", "cfg2"]:
        raise Unsupported("merge_flags: parameters changed")
    stmts = _code(fn.body)
    if len(stmts) != 2:
        raise Unsupported("merge_flags: expected a for loop and `return cfg1`")
    loop = stmts[0]
    expect(stmts[1], "return cfg1", "merge_flags, result")
    if not isinstance(loop, ast.For) or ast.unparse(loop.target) != "(key, value)" \
            or ast.unparse(loop.iter) != "cfg2.items()" or loop.orelse or len(loop.body) != 1:
        raise Unsupported("merge_flags: the loop over cfg2.items() changed shape")
    br = loop.body[0]
    if not isinstance(br, ast.If) or len(br.body) != 1 or len(br.orelse) != 3:
        raise Unsupported("merge_flags: the loop body is no longer if / else with two guards and an extend")
    test = ast.unparse(br.test)
    if test == "key not in cfg1":
        cond = "(!(dictHas cfg1 key))"
    elif test == "key in cfg1":
        cond = "(dictHas cfg1 key)"
    else:
        raise Unsupported("merge_flags: test `%s`" % test)

    def action(st):
        src = ast.unparse(st)
        if src == "cfg1[key] = value":
            return "dictSetNew cfg1 key value"
        if src == "cfg1[key].extend(value)":
            return "dictExtend cfg1 key value"
        raise Unsupported("merge_flags: statement `%s`" % src)
    # the two guards raise TypeError for values that are not lists; list values are the only ones translated
    g1, g2, ext = br.orelse
    for g, what in ((g1, "cfg1[key]"), (g2, "value")):
        if not (isinstance(g, ast.If) and ast.unparse(g.test) == "not isinstance(%s, list)" % what and not g.orelse
                and len(g.body) == 1 and isinstance(g.body[0], ast.Raise)
                and ast.unparse(g.body[0]).startswith("raise TypeError(")):
            raise Unsupported("merge_flags: the list guard on %s changed shape" % what)
    return ("def merge_step {κ α : Type} [DecidableEq κ] (cfg1 : List (κ × List α)) (key : κ) (value : List α) :\n"
            "    List (κ × List α) :=\n  if %s then %s else %s\n" % (cond, action(br.body[0]), action(ext)))


def lean_text():
    tree = ast.parse(_read())
    fpc = find_function(tree, "flags_from_pkgconfig")
    if [a.arg for a in fpc.args.args] != ["libs"]:
        raise Unsupported("flags_from_pkgconfig: parameters changed")
    locals_ = [n.name for n in fpc.body if isinstance(n, ast.FunctionDef)]
    if sorted(locals_) != sorted(GETTERS + ["kwargs"]):
        raise Unsupported("flags_from_pkgconfig: local functions are now %r" % (locals_,))
    parts = ["import CffiVerif.Model.PyText\n",
             "/-! Translation of src/cffi/pkgconfig.py (`flags_from_pkgconfig`, `merge_flags`); see translate/c35_py.py. -/",
             "namespace CffiVerif.Generated.PkgConfigPy\nopen CffiVerif.PyText\n",
             gen_macro(fpc)]
    for g in GETTERS:
        parts.append(gen_getter(fpc, g)[0])
    kw, keys = gen_kwargs(fpc)
    parts.append(kw)
    check_outer_loop(fpc)
    parts.append(gen_merge(tree))
    parts.append("end CffiVerif.Generated.PkgConfigPy\n")
    return "\n".join(parts), keys


def run():
    text, keys = lean_text()
    return common.write_generated("PkgConfigPy", text,
                                  "_macro, %d getters, kwargs keys %s, merge_flags step" % (len(GETTERS), ",".join(keys)))


if __name__ == "__main__":
    print(lean_text()[0])
