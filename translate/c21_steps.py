"""Translator for C21: the statement ORDER of the ownership functions of /repo/src/c/_cffi_backend.c,
re-extracted on every run into lean/CffiVerif/Generated/OwnershipSteps.lean.

  cdatagcp_finalize       copy destructor/origobj to locals, NULL both fields, then gcp_finalize(locals)
  cdatagcp_dealloc        copy to locals, untrack, cdata_dealloc, then gcp_finalize(locals)
  cdatagcp_traverse       the members visited for the cycle collector (destructor and origobj)
  explicit_release_case   which cdata type gets which case number (anything else: ValueError)
  cdata_exit              what each case does (struct pointer: finalize the struct if it is a wrapper;
                          from_buffer: PyBuffer_Release; wrapper: cdatagcp_finalize)
  b_gcp                   destructor None: type check (TypeError), Py_CLEAR(destructor), return None
  cdataowninggc_dealloc   handle: untrack, DECREF the stored object, cdata_dealloc
  newp_handle             c_data = the handle object itself; INCREF and store the object
  b_from_handle           reads c_data back as the handle object, checks refcount/type, returns structobj

Every statement of these functions must be one of the statements listed in the tables below (after removal
of comments and normalisation of white space); anything else raises, as does a missing function.  The
order of the recognised statements is what is emitted; the theorems `release_order_is_source` etc. in
Props/C21.lean are stated over the emitted lists, so a reordering makes the kernel reject them.
"""
import os
import re
import sys

sys.path.insert(0, os.path.dirname(os.path.abspath(__file__)))
import cexpr
from cexpr import CExprError


def func_body(src, name):
    """body of the *definition* of C function `name` (a prototype ends in ';')"""
    for m in re.finditer(r"\b%s\s*\(([^(){};]|\([^()]*\))*\)\s*\{" % re.escape(name), src):
        i = m.end()
        depth = 1
        while depth:
            c = src[i]
            depth += (c == "{") - (c == "}")
            i += 1
        return src[m.end():i - 1]
    raise CExprError("definition of %s not found" % name)


def statements(body):
    """comments and preprocessor lines removed, white space normalised, split at ; { }"""
    body = cexpr.strip_c_comments(body)
    body = re.sub(r"^\s*#.*$", "", body, flags=re.M)
    out = []
    for part in re.split(r"([;{}])", body):
        part = re.sub(r"\s+", " ", part).strip()
        if part and part not in (";",):
            out.append(part)
    return out


def classify(name, stmts, table, skip=()):
    """map each statement through `table` [(regex, token or None)]; None = recognised, emits nothing"""
    res = []
    for st in stmts:
        for rx, tok in table:
            m = re.fullmatch(rx, st)
            if m:
                if tok is not None:
                    res.append(tok if isinstance(tok, str) else tok(m))
                break
        else:
            raise CExprError("%s: statement %r is not of the modelled shape" % (name, st))
    return res


def src_of(arg, name):
    arg = arg.strip()
    if arg in ("cd->destructor", "cd->origobj"):
        return ".field"
    if arg in ("destructor", "origobj"):
        return ".loc"
    if arg == "NULL":
        return ".null"
    raise CExprError("%s: unexpected argument %r of gcp_finalize" % (name, arg))


FIN_TABLE = [
    (r"[{}]", None),
    (r"PyObject \*destructor = cd->destructor", ".copyDtor"),
    (r"PyObject \*origobj = cd->origobj", ".copyOrig"),
    (r"cd->destructor = NULL", ".nullDtor"),
    (r"cd->origobj = NULL", ".nullOrig"),
    (r"PyObject_GC_UnTrack\(cd\)", ".untrack"),
    (r"cdata_dealloc\(\(CDataObject \*\)cd\)", ".dealloc"),
    (r"gcp_finalize\(([^,]+),([^,]+)\)", lambda m: "(.call %s %s)" % (src_of(m.group(1), "gcp_finalize"),
                                                                      src_of(m.group(2), "gcp_finalize"))),
]


def extract(repo):
    src = open(os.path.join(repo, "src/c/_cffi_backend.c")).read()
    out = {}
    out["cdatagcp_finalize"] = classify("cdatagcp_finalize", statements(func_body(src, "cdatagcp_finalize")), FIN_TABLE)
    out["cdatagcp_dealloc"] = classify("cdatagcp_dealloc", statements(func_body(src, "cdatagcp_dealloc")), FIN_TABLE)

    # cdatagcp_traverse: the members the cycle collector is told about
    out["gcp_traverse"] = classify("cdatagcp_traverse", statements(func_body(src, "cdatagcp_traverse")), [
        (r"[{}]", None), (r"return 0", None),
        (r"Py_VISIT\(cd->destructor\)", ".destructor"), (r"Py_VISIT\(cd->origobj\)", ".origobj")])

    # explicit_release_case: type test -> case number
    st = statements(func_body(src, "explicit_release_case"))
    text = " ; ".join(st)
    cases = []
    for ty, cond, num in (("CDataOwning_Type", r"\{ ; if \(\(ct->ct_flags & \(CT_POINTER \| CT_ARRAY\)\) != 0\) return 0", 0),
                          ("CDataFromBuf_Type", r"\{ ; return 1", 1),
                          ("CDataGCP_Type", r"\{ ; return 2", 2)):
        rx = r"if \(Py_TYPE\(cd\) == &%s\) ; %s ; \}" % (ty, cond)
        if not re.search(rx, text):
            raise CExprError("explicit_release_case: the test for %s is not of the modelled shape" % ty)
        cases.append((ty, num))
    if not re.search(r"PyErr_SetString\(PyExc_ValueError,.*\) ; return -1", text):
        raise CExprError("explicit_release_case: the ValueError default is gone")
    if len(re.findall(r"return ", text)) != 4:
        raise CExprError("explicit_release_case: unexpected number of return statements")
    out["release_case"] = cases

    # cdata_exit: per case, the calls made
    body = cexpr.strip_c_comments(func_body(src, "cdata_exit"))
    m = re.search(r"switch \(explicit_release_case\(cd\)\)\s*\{(.*)\}\s*Py_INCREF\(Py_None\);\s*return Py_None;", body, re.S)
    if not m:
        raise CExprError("cdata_exit: the switch over explicit_release_case(cd) is not of the modelled shape")
    parts = re.split(r"\b(case \d+|default)\s*:", m.group(1))
    exits = []
    for label, code in zip(parts[1::2], parts[2::2]):
        code = re.sub(r"\s+", " ", code).strip()
        if label == "default":
            if code.rstrip("} ").strip() != "return NULL;":
                raise CExprError("cdata_exit: default case is %r" % code)
            continue
        n = int(label.split()[1])
        if n == 0:
            want = (r"ct = \(\(CDataObject \*\)cd\)->c_type; if \(ct->ct_flags & CT_IS_PTR_TO_OWNED\) \{ "
                    r"PyObject \*x = \(\(CDataObject_own_structptr \*\)cd\)->structobj; "
                    r"if \(Py_TYPE\(x\) == &CDataGCP_Type\) \{ cdatagcp_finalize\(\(CDataObject_gcp \*\)x\); \} \} break;")
            act = ".finalizeStructIfWrapper"
        elif n == 1:
            want = r"view = \(\(CDataObject_frombuf \*\)cd\)->bufferview; PyBuffer_Release\(view\); break;"
            act = ".bufferRelease"
        elif n == 2:
            want = r"cdatagcp_finalize\(\(CDataObject_gcp \*\)cd\); break;"
            act = ".finalizeSelf"
        else:
            raise CExprError("cdata_exit: unknown case %d" % n)
        if not re.fullmatch(want, code):
            raise CExprError("cdata_exit: case %d is %r" % (n, code))
        exits.append((n, act))
    if [n for n, _ in exits] != [0, 1, 2]:
        raise CExprError("cdata_exit: cases %r" % (exits,))
    out["exit_actions"] = exits

    # b_gcp, destructor None
    body = cexpr.strip_c_comments(func_body(src, "b_gcp"))
    m = re.search(r"if \(destructor == Py_None\)\s*\{(.*?)Py_RETURN_NONE;\s*\}", body, re.S)
    if not m:
        raise CExprError("b_gcp: the destructor-None branch is not of the modelled shape")
    code = re.sub(r"\s+", " ", m.group(1)).strip()
    want = (r"if \(!PyObject_TypeCheck\(origobj, &CDataGCP_Type\)\) \{ PyErr_SetString\(PyExc_TypeError, .*?\); "
            r"return NULL; \} Py_CLEAR\(\(\(CDataObject_gcp \*\)origobj\)->destructor\);")
    if not re.fullmatch(want, code):
        raise CExprError("b_gcp: destructor-None branch is %r" % code)
    out["gc_none"] = [".typeCheckWrapperElseTypeError", ".clearDestructor", ".returnNone"]

    # cdataowninggc_dealloc, the handle branch
    st = statements(func_body(src, "cdataowninggc_dealloc"))
    text = " ; ".join(st)
    m = re.fullmatch(r"PyObject_GC_UnTrack\(cd\) ; if \(cd->c_type->ct_flags & CT_IS_VOID_PTR\) ; \{ ; "
                     r"PyObject \*x = \(\(CDataObject_own_structptr \*\)cd\)->structobj ; Py_DECREF\(x\) ; \} ; "
                     r"else if \(cd->c_type->ct_flags & CT_FUNCTIONPTR\) ; \{ .* \} ; else ; \{ ; Py_FatalError\(.*\) ; \} ; "
                     r"cdata_dealloc\(cd\)", text)
    if not m:
        raise CExprError("cdataowninggc_dealloc is not of the modelled shape")
    out["handle_dealloc"] = [".untrack", ".decrefStored", ".dealloc"]

    # newp_handle
    st = [s for s in statements(func_body(src, "newp_handle")) if s not in "{}"]
    want = [r"CDataObject_own_structptr \*cd", r"cd = \(CDataObject_own_structptr \*\)PyObject_GC_New\(CDataObject_own_structptr, &CDataOwningGC_Type\)",
            r"if \(cd == NULL\) return NULL", r"Py_INCREF\(ct_voidp\)", r"cd->head\.c_type = ct_voidp",
            r"cd->head\.c_data = \(char \*\)cd", r"cd->head\.c_weakreflist = NULL", r"Py_INCREF\(x\)", r"cd->structobj = x",
            r"PyObject_GC_Track\(cd\)", r"return \(PyObject \*\)cd"]
    if len(st) != len(want) or not all(re.fullmatch(w, s) for w, s in zip(want, st)):
        raise CExprError("newp_handle is not of the modelled shape: %r" % (st,))
    out["new_handle"] = [".allocHandle", ".addressIsObject", ".increfStored", ".storeObject", ".returnHandle"]

    # b_from_handle
    body = re.sub(r"\s+", " ", cexpr.strip_c_comments(func_body(src, "b_from_handle")))
    for need, what in ((r"orgcd = \(CDataObject_own_structptr \*\)\(\(CDataObject \*\)arg\)->c_data;", "reads c_data back"),
                       (r"if \(Py_REFCNT\(orgcd\) <= 0 \|\| Py_TYPE\(orgcd\) != &CDataOwningGC_Type\) \{ Py_FatalError\(", "liveness/type check"),
                       (r"x = orgcd->structobj; Py_INCREF\(x\); return x;", "returns the stored object")):
        if not re.search(need, body):
            raise CExprError("b_from_handle: %s: not of the modelled shape" % what)
    if not (body.index("orgcd = (CDataObject_own_structptr") < body.index("Py_REFCNT(orgcd)") < body.index("x = orgcd->structobj")):
        raise CExprError("b_from_handle: order of the statements changed")
    out["from_handle"] = [".addressToObject", ".checkLiveHandleElseFatal", ".returnStored"]
    return out


def lean_list(xs):
    return "[" + ", ".join(xs) + "]"


def render(ex):
    ty = {"CDataOwning_Type": ".owningPtrOrArray", "CDataFromBuf_Type": ".frombuf", "CDataGCP_Type": ".wrapper"}
    return """namespace CffiVerif.Generated.OwnershipSteps

/-- where an argument of `gcp_finalize` is read from -/
inductive Src | field | loc | null
  deriving DecidableEq, Repr

/-- statements of `cdatagcp_finalize` / `cdatagcp_dealloc` -/
inductive FinStep
  | copyDtor | copyOrig | nullDtor | nullOrig | untrack | dealloc
  | call (d o : Src)
  deriving DecidableEq, Repr

/-- members of the wrapper visited by `cdatagcp_traverse` (tp_traverse) -/
inductive Member | destructor | origobj
  deriving DecidableEq, Repr

inductive RelType | owningPtrOrArray | frombuf | wrapper
  deriving DecidableEq, Repr

inductive ExitAct | finalizeStructIfWrapper | bufferRelease | finalizeSelf
  deriving DecidableEq, Repr

inductive GcNoneStep | typeCheckWrapperElseTypeError | clearDestructor | returnNone
  deriving DecidableEq, Repr

inductive HandleStep
  | untrack | decrefStored | dealloc
  | allocHandle | addressIsObject | increfStored | storeObject | returnHandle
  | addressToObject | checkLiveHandleElseFatal | returnStored
  deriving DecidableEq, Repr

def cdatagcp_finalize : List FinStep := %s
def cdatagcp_dealloc : List FinStep := %s
def gcp_traverse : List Member := %s
/-- `explicit_release_case`: cdata type ↦ case number (every other cdata: ValueError) -/
def release_case : List (RelType × Nat) := %s
/-- `cdata_exit`: case number ↦ what is done -/
def exit_actions : List (Nat × ExitAct) := %s
def gc_none : List GcNoneStep := %s
def handle_dealloc : List HandleStep := %s
def new_handle : List HandleStep := %s
def from_handle : List HandleStep := %s

end CffiVerif.Generated.OwnershipSteps
""" % (lean_list(ex["cdatagcp_finalize"]), lean_list(ex["cdatagcp_dealloc"]), lean_list(ex["gcp_traverse"]),
       lean_list("(%s, %d)" % (ty[t], n) for t, n in ex["release_case"]),
       lean_list("(%d, %s)" % (n, a) for n, a in ex["exit_actions"]),
       lean_list(ex["gc_none"]), lean_list(ex["handle_dealloc"]), lean_list(ex["new_handle"]),
       lean_list(ex["from_handle"]))


def translate(repo, write_generated):
    ex = extract(repo)
    return write_generated("OwnershipSteps", render(ex),
                           "statement order of cdatagcp_finalize %s, cdatagcp_dealloc %s; release dispatch %s"
                           % (ex["cdatagcp_finalize"], ex["cdatagcp_dealloc"], ex["exit_actions"]))


if __name__ == "__main__":
    print(render(extract(sys.argv[1] if len(sys.argv) > 1 else "/repo")))
