"""C07/C08: re-extracts from the working tree of /repo the name tables the model of the C type parser is written over:

  * next_token() (src/c/parse_c_type.c): every `if (tok->size == N && !memcmp(p, "kw", N)) tok->kind = TOK_X;`
    -> (keyword text, TOK name); N must be the length of the text and the `case` character its first letter;
  * search_standard_typename(): every `if (size == N && !memcmp(p, "lit", M)) return _CFFI_PRIM_X;`
    -> the full name lit + "_t" (N must be M + 2: the guard checks the last two characters), the dispatch
    character (p[4] or p[10]) must be the one of the name;
  * build_primitive_type() (src/c/realize_c_type.c): the `primitive_name[]` table -> the names the backend prints.

Writes lean/CffiVerif/Generated/TypeNames.lean.  Raises when an extraction point is missing or has another shape.
"""
import os
import re

import common


def extract(repo):
    src = open(os.path.join(repo, "src/c/parse_c_type.c")).read()
    m = re.search(r"^static void next_token\(token_t \*tok\)\s*\{(.*?)^\}", src, re.M | re.S)
    if not m:
        raise ValueError("next_token not found")
    body = m.group(1)
    sw = body.find("switch (*p) {")
    if sw < 0:
        raise ValueError("next_token: switch (*p) not found")
    kws, case = [], None
    for line in body[sw:].split("\n")[1:]:
        s = line.strip()
        mc = re.match(r"case '(.)':$", s)
        if mc:
            case = mc.group(1)
            continue
        if "memcmp" in s:
            mk = re.match(r'if \(tok->size == (\d+) && !memcmp\(p,\s*"([^"\\]+)",\s*(\d+)\)\)\s*tok->kind = (TOK_\w+);$', s)
            if not mk:
                raise ValueError("next_token: unexpected keyword line %r" % line)
            n, text, k, tok = int(mk.group(1)), mk.group(2), int(mk.group(3)), mk.group(4)
            if n != len(text) or k != len(text) or case != text[0]:
                raise ValueError("next_token: keyword %r compared with size %d / length %d under case %r" % (text, n, k, case))
            kws.append((text, tok))
    if len(kws) < 10:
        raise ValueError("next_token: only %d keywords found" % len(kws))

    m = re.search(r"^int search_standard_typename\(const char \*p, size_t size\)\s*\{(.*?)^\}", src, re.M | re.S)
    if not m:
        raise ValueError("search_standard_typename not found")
    body = m.group(1)
    if not re.search(r"if \(size < 6 \|\| p\[size-2\] != '_' \|\| p\[size-1\] != 't'\)\s*return -1;", body):
        raise ValueError("search_standard_typename: guard changed")
    stds = []
    cases = []          # stack of (index, char)
    idx = []
    for line in body.split("\n"):
        s = line.strip()
        ms = re.match(r"switch \(p\[(\d+)\]\) \{$", s)
        if ms:
            idx.append(int(ms.group(1)))
            cases.append(None)
            continue
        mc = re.match(r"case '(.)':$", s)
        if mc and cases:
            cases[-1] = mc.group(1)
            continue
        if s == "}" and idx and "switch" not in s:
            # closes either an `if (size >= 12) {` or a switch; tracked loosely: the dispatch check below is what matters
            continue
        if "memcmp" in s:
            me = re.match(r'if \(size == (\d+) && !memcmp\(p,\s*"([^"\\]+)",\s*(\d+)\)\) return (_CFFI_PRIM_\w+);$', s)
            if not me:
                raise ValueError("search_standard_typename: unexpected line %r" % line)
            n, lit, k, prim = int(me.group(1)), me.group(2), int(me.group(3)), me.group(4)
            if k != len(lit) or n != k + 2:
                raise ValueError("search_standard_typename: %r compared with size %d / length %d" % (lit, n, k))
            name = lit + "_t"
            ok = any(i < len(name) and name[i] == c for i, c in zip(idx, cases) if c is not None)
            if not ok:
                raise ValueError("search_standard_typename: %r is not reachable under its case" % name)
            stds.append((name, prim))
    if len(stds) < 30:
        raise ValueError("search_standard_typename: only %d names found" % len(stds))

    rsrc = open(os.path.join(repo, "src/c/realize_c_type.c")).read()
    m = re.search(r"static const char \*primitive_name\[\] = \{(.*?)\};", rsrc, re.S)
    if not m:
        raise ValueError("primitive_name[] not found")
    names = re.findall(r'"([^"]+)"', m.group(1))
    if len(names) < 40:
        raise ValueError("primitive_name[]: only %d names" % len(names))
    # the number behind each _CFFI_PRIM_X returned by search_standard_typename must select that very name
    hdr = open(os.path.join(repo, "src/cffi/parse_c_type.h")).read()
    prims = {mm.group(1): int(mm.group(2)) for mm in re.finditer(r"^#define\s+(_CFFI_PRIM_\w+)\s+(\d+)\s*$", hdr, re.M)}
    table = [None] + names          # primitive_name[0] is NULL (void is built separately)
    for name, prim in stds:
        if prim not in prims or prims[prim] >= len(table) or table[prims[prim]] != name:
            raise ValueError("search_standard_typename returns %s for %r but primitive_name[%s] is %r"
                             % (prim, name, prims.get(prim), table[prims[prim]] if prim in prims and prims[prim] < len(table) else None))
    return kws, stds, names


def lean_text(kws, stds, names):
    q = lambda s: '"%s"' % s
    out = ["namespace CffiVerif.Generated.TypeNames", "",
           "/-- next_token: (keyword text, TOK name). -/",
           "def keywords : List (String × String) := [",
           ",\n".join("  (%s, %s)" % (q(t), q(k)) for t, k in kws), "]", "",
           "/-- search_standard_typename: (name, _CFFI_PRIM name). -/",
           "def standardTypenames : List (String × String) := [",
           ",\n".join("  (%s, %s)" % (q(n), q(p)) for n, p in stds), "]", "",
           "/-- build_primitive_type: the names of the primitive ctypes (index = _CFFI_PRIM number, 0 = void). -/",
           "def primitiveNames : List String := [",
           ",\n".join("  %s" % q(n) for n in names), "]", "",
           "end CffiVerif.Generated.TypeNames", ""]
    return "\n".join(out)


def translate():
    kws, stds, names = extract(common.REPO)
    return common.write_generated("TypeNames", lean_text(kws, stds, names),
                                  "%d keywords, %d standard type names, %d primitive names from parse_c_type.c / realize_c_type.c"
                                  % (len(kws), len(stds), len(names)))
