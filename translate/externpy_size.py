"""Translator for C14: the size rule of the argument/result area of an extern "Python"
function, re-extracted from `Recompiler._extern_python_decl` (src/cffi/recompiler.py)
into lean/CffiVerif/Generated/ExternPySize.lean on every run.

Extraction points (all must be found with exactly the expected shape, else ExtractError):
  * nested `def may_need_128_bits(tp): return isinstance(tp, model.PrimitiveType) and tp.name == '<name>'`
  * `size_of_a = max(len(tp.args)*K, M)`
  * every `if <cond>: size_of_a = max(size_of_a, N)` where <cond> is an `or` of
    `may_need_128_bits(tp.result)` and `isinstance(tp.result, model.PrimitiveType) and tp.result.name == '<name>'`
  * `if isinstance(tp.result, model.StructOrUnion): size_of_a = 'sizeof(%s) > %d ? sizeof(%s) : %d' % (...)`
  * the store `prnt('  *(%s)(p + %d) = %s;' % (type.get_c_name('*'), i*K', arg))` and the by-reference
    condition `isinstance(type, model.StructOrUnion) or may_need_128_bits(type)` in front of it
  * reader side, src/c/_cffi_backend.c general_invoke_callback: `a_src = args + i * K;` and
    `if (a_ct->ct_flags & (F1 | F2 | ...)) a_src = *(char **)a_src;`
"""
import ast
import os

import common


class ExtractError(Exception):
    pass


def need(cond, msg):
    if not cond:
        raise ExtractError("recompiler.py, _extern_python_decl: " + msg)


def _is_name(node, name):
    return isinstance(node, ast.Name) and node.id == name


def _attr_chain(node):
    parts = []
    while isinstance(node, ast.Attribute):
        parts.append(node.attr)
        node = node.value
    if isinstance(node, ast.Name):
        parts.append(node.id)
        return ".".join(reversed(parts))
    return None


def _prim_name_test(node, subject):
    """`isinstance(<subject>, model.PrimitiveType) and <subject>.name == '<lit>'` -> lit"""
    need(isinstance(node, ast.BoolOp) and isinstance(node.op, ast.And) and len(node.values) == 2,
         "expected `isinstance(...) and ....name == '...'`, got " + ast.dump(node)[:120])
    a, b = node.values
    need(isinstance(a, ast.Call) and _is_name(a.func, "isinstance") and _attr_chain(a.args[0]) == subject
         and _attr_chain(a.args[1]) == "model.PrimitiveType", "unexpected isinstance test for " + subject)
    need(isinstance(b, ast.Compare) and len(b.ops) == 1 and _attr_chain(b.left) == subject + ".name",
         "unexpected name comparison for " + subject)
    c = b.comparators[0]
    if isinstance(b.ops[0], ast.Eq) and isinstance(c, ast.Constant) and isinstance(c.value, str):
        return [c.value]
    need(isinstance(b.ops[0], ast.In) and isinstance(c, (ast.Tuple, ast.List))
         and all(isinstance(e, ast.Constant) and isinstance(e.value, str) for e in c.elts),
         "name test for %s is neither `== '<name>'` nor `in (<names>)`" % subject)
    return [e.value for e in c.elts]


def extract(repo):
    src = open(os.path.join(repo, "src/cffi/recompiler.py")).read()
    tree = ast.parse(src)
    fn = None
    for node in ast.walk(tree):
        if isinstance(node, ast.FunctionDef) and node.name == "_extern_python_decl":
            fn = node
    need(fn is not None, "function not found")
    # ---- may_need_128_bits
    helper = [n for n in fn.body if isinstance(n, ast.FunctionDef) and n.name == "may_need_128_bits"]
    need(len(helper) == 1 and len(helper[0].body) == 1 and isinstance(helper[0].body[0], ast.Return),
         "nested may_need_128_bits not found in the expected shape")
    names128 = _prim_name_test(helper[0].body[0].value, "tp")
    # ---- size_of_a
    slot = min_area = None
    wide_rules = []
    struct_rule = False
    seen_base = False
    for node in fn.body:
        if isinstance(node, ast.Assign) and len(node.targets) == 1 and _is_name(node.targets[0], "size_of_a"):
            need(not seen_base, "size_of_a assigned twice at top level")
            v = node.value
            need(isinstance(v, ast.Call) and _is_name(v.func, "max") and len(v.args) == 2
                 and isinstance(v.args[0], ast.BinOp) and isinstance(v.args[0].op, ast.Mult)
                 and isinstance(v.args[0].left, ast.Call) and _is_name(v.args[0].left.func, "len")
                 and _attr_chain(v.args[0].left.args[0]) == "tp.args"
                 and isinstance(v.args[0].right, ast.Constant) and isinstance(v.args[1], ast.Constant),
                 "base rule is not `max(len(tp.args)*K, M)`")
            slot, min_area = v.args[0].right.value, v.args[1].value
            seen_base = True
        elif isinstance(node, ast.If) and any(
                isinstance(s, ast.Assign) and _is_name(s.targets[0], "size_of_a") for s in node.body):
            need(seen_base, "size_of_a adjusted before its base assignment")
            need(len(node.body) == 1 and not node.orelse, "unexpected body of an `if` adjusting size_of_a")
            asg = node.body[0].value
            test = node.test
            if isinstance(asg, ast.Call) and _is_name(asg.func, "max"):
                need(len(asg.args) == 2 and _is_name(asg.args[0], "size_of_a") and isinstance(asg.args[1], ast.Constant),
                     "adjustment is not `max(size_of_a, N)`")
                terms = test.values if isinstance(test, ast.BoolOp) and isinstance(test.op, ast.Or) else [test]
                names = []
                for t in terms:
                    if isinstance(t, ast.Call) and _is_name(t.func, "may_need_128_bits"):
                        need(_attr_chain(t.args[0]) == "tp.result", "may_need_128_bits applied to something else")
                        names += names128
                    else:
                        names += _prim_name_test(t, "tp.result")
                wide_rules.append((names, asg.args[1].value))
            else:
                need(isinstance(test, ast.Call) and _is_name(test.func, "isinstance")
                     and _attr_chain(test.args[0]) == "tp.result" and _attr_chain(test.args[1]) == "model.StructOrUnion",
                     "unexpected condition of the struct rule")
                need(isinstance(asg, ast.BinOp) and isinstance(asg.op, ast.Mod) and isinstance(asg.left, ast.Constant)
                     and asg.left.value == "sizeof(%s) > %d ? sizeof(%s) : %d", "struct rule is not the expected C conditional")
                elts = asg.right.elts
                need(len(elts) == 4 and _is_name(elts[1], "size_of_a") and _is_name(elts[3], "size_of_a"),
                     "struct rule does not compare with size_of_a")
                struct_rule = True
    need(seen_base, "base assignment of size_of_a not found")
    # ---- the stores
    stride = None
    byref_ok = False
    for node in ast.walk(fn):
        if isinstance(node, ast.For):
            for s in node.body:
                if isinstance(s, ast.If) and isinstance(s.test, ast.BoolOp) and isinstance(s.test.op, ast.Or):
                    vals = s.test.values
                    if (len(vals) == 2 and isinstance(vals[0], ast.Call) and _is_name(vals[0].func, "isinstance")
                            and _attr_chain(vals[0].args[1]) == "model.StructOrUnion"
                            and isinstance(vals[1], ast.Call) and _is_name(vals[1].func, "may_need_128_bits")):
                        byref_ok = True
                if (isinstance(s, ast.Expr) and isinstance(s.value, ast.Call) and _is_name(s.value.func, "prnt")
                        and isinstance(s.value.args[0], ast.BinOp) and isinstance(s.value.args[0].left, ast.Constant)
                        and s.value.args[0].left.value == "  *(%s)(p + %d) = %s;"):
                    off = s.value.args[0].right.elts[1]
                    need(isinstance(off, ast.BinOp) and isinstance(off.op, ast.Mult) and _is_name(off.left, "i")
                         and isinstance(off.right, ast.Constant), "slot offset is not `i*K`")
                    stride = off.right.value
    need(stride is not None, "the store `*(T *)(p + i*K) = a_i` not found")
    need(byref_ok, "the by-reference condition (StructOrUnion or may_need_128_bits) not found")
    need(stride == slot, "slot stride %r differs from the factor %r of len(tp.args)" % (stride, slot))
    reader = extract_reader(repo)
    return {"slot": slot, "min_area": min_area, "wide_rules": wide_rules, "struct_rule": struct_rule,
            "byref_prims": names128, "byref_classes": ["StructOrUnion"], **reader}


def extract_reader(repo):
    """general_invoke_callback, branch `decode_args_from_libffi == 0`: the slot stride and the by-reference test."""
    import re
    src = open(os.path.join(repo, "src/c/_cffi_backend.c")).read()
    m = re.search(r"static void general_invoke_callback\(.*?\n\}\n", src, re.S)
    need(m, "_cffi_backend.c: general_invoke_callback not found")
    body = re.sub(r"/\*.*?\*/", " ", m.group(0), flags=re.S)
    mm = re.search(r"else \{\s*a_src = args \+ i \* (\d+);\s*if \((.*?)\)\s*a_src = \*\(char \*\*\)a_src;\s*\}", body, re.S)
    need(mm, "general_invoke_callback: `a_src = args + i * K; if (<test>) a_src = *(char **)a_src;` not found")
    cond = re.sub(r"\s+", " ", mm.group(2)).strip()
    mf = re.match(r"a_ct->ct_flags & \(([A-Z_| ]+)\)$", cond)
    flags = sorted(f.strip() for f in mf.group(1).split("|")) if mf else ["<not a flag test> " + cond]
    return {"reader_stride": int(mm.group(1)), "reader_flags": flags}


def lstr(s):
    return '"' + s.replace("\\", "\\\\").replace('"', '\\"') + '"'


def lean_text(ex):
    rules = ", ".join("([%s], %d)" % (", ".join(lstr(n) for n in names), n16) for names, n16 in ex["wide_rules"])
    return """/-!
The size rule of `char a[size_of_a]` in the C function generated for an `extern "Python"`
declaration (`Recompiler._extern_python_decl`), see /verif/translate/externpy_size.py.
-/
namespace CffiVerif.Generated.ExternPySize

/-- `K` of `len(tp.args)*K` and of the stores `*(T *)(p + i*K) = a_i` -/
def slot : Nat := %d

/-- `M` of `size_of_a = max(len(tp.args)*K, M)` -/
def minArea : Nat := %d

/-- every `if <tp.result is a primitive named one of these>: size_of_a = max(size_of_a, N)`, in source order -/
def wideRules : List (List String × Nat) := [%s]

/-- `if isinstance(tp.result, model.StructOrUnion): size_of_a = sizeof(R) > size_of_a ? sizeof(R) : size_of_a` present -/
def structRule : Bool := %s

/-- writer (`_extern_python_decl`): `isinstance(type, model.<class>) or may_need_128_bits(type)` — the model classes
and the primitive names whose arguments are stored as `&a_i` -/
def byRefClasses : List String := [%s]
def byRefPrims : List String := [%s]

/-- reader (`general_invoke_callback`, `decode_args_from_libffi == 0`): `a_src = args + i * K` and the flags of
`if (a_ct->ct_flags & (<flags>)) a_src = *(char **)a_src` (sorted; a test of another shape is kept verbatim) -/
def readerStride : Nat := %d
def readerByRefFlags : List String := [%s]

end CffiVerif.Generated.ExternPySize
""" % (ex["slot"], ex["min_area"], rules, "true" if ex["struct_rule"] else "false",
       ", ".join(lstr(n) for n in ex["byref_classes"]), ", ".join(lstr(n) for n in ex["byref_prims"]),
       ex["reader_stride"], ", ".join(lstr(n) for n in ex["reader_flags"]))


def translator(ctx=None):
    def run():
        ex = extract(common.REPO)
        summary = "slot %d, min %d, wide rules %r, struct rule %s, by-ref prims %r" % (
            ex["slot"], ex["min_area"], ex["wide_rules"], ex["struct_rule"], ex["byref_prims"])
        return common.write_generated("ExternPySize", lean_text(ex), summary)
    return run
