"""Translator for C13: how `cdata_call` (src/c/_cffi_backend.c) obtains the temporary array of a
pointer argument given as list/tuple/str, re-extracted into lean/CffiVerif/Generated/CallTmpBuf.lean.

Extraction points (shape-checked; ExtractError when the code no longer has this shape):
  inside `for (i=0; i<nargs; i++) { ... }` of cdata_call, after `_prepare_pointer_call_argument`:
      if (datasize <= N) { tmpbuf = <small>; }
      else { struct freeme_s *fp = (struct freeme_s *)<large>; ... tmpbuf = (char *)&fp->alignment; }
      memset(tmpbuf, 0, datasize);
      *(char **)data = tmpbuf;
      if (convert_array_from_object(tmpbuf, argtype, obj) < 0) goto error;
`<small>` and `<large>` are emitted verbatim: the model classifies them (a call of alloca / PyObject_Malloc made
inside the loop is a fresh allocation per argument; anything else is a shared object).
Also the API-mode side (recompiler.py `_convert_funcarg_to_c_ptr_or_array` and `_cffi_convert_array_argument`
of _cffi_include.h): alloca threshold, memset before the conversion.
"""
import os
import re

import common


class ExtractError(Exception):
    pass


def need(cond, msg):
    if not cond:
        raise ExtractError(msg)


def norm(s):
    return re.sub(r"\s+", " ", s).strip()


def extract():
    src = open(os.path.join(common.REPO, "src/c/_cffi_backend.c")).read()
    m = re.search(r"\ncdata_call\(CDataObject \*cd.*?\n\}\n", src, re.S)
    need(m, "cdata_call not found")
    body = re.sub(r"/\*.*?\*/", " ", m.group(0), flags=re.S)
    loop = re.search(r"for \(i=0; i<nargs; i\+\+\) \{\s*CTypeDescrObject \*argtype;(.*?)\n    resultdata = ", body, re.S)
    need(loop, "cdata_call: the per-argument conversion loop not found")
    text = loop.group(1)
    mm = re.search(r"if \(datasize <= ([^{;]*?)\) \{\s*tmpbuf = (.*?);\s*\}\s*else \{(.*?)tmpbuf = \(char \*\)&fp->alignment;\s*\}"
                   r"\s*memset\(tmpbuf, 0, datasize\);\s*\*\(char \*\*\)data = tmpbuf;\s*"
                   r"if \(convert_array_from_object\(tmpbuf, argtype, obj\) < 0\)", text, re.S)
    need(mm, "cdata_call: `if (datasize <= N) { tmpbuf = ...; } else { ... } memset(tmpbuf, 0, datasize); "
             "*(char **)data = tmpbuf; convert_array_from_object(...)` not found inside the argument loop")
    large = re.search(r"fp = \(struct freeme_s \*\)(PyObject_Malloc\(.*?\));", mm.group(3), re.S)
    need(large, "cdata_call: the PyObject_Malloc of the large branch not found")
    need(re.search(r"fp->next = freeme;\s*freeme = fp;", mm.group(3)), "cdata_call: the large buffer is not chained on `freeme`")
    ex = {"threshold": norm(mm.group(1)), "small": norm(mm.group(2)), "large": norm(large.group(1))}
    # API mode
    rec = open(os.path.join(common.REPO, "src/cffi/recompiler.py")).read()
    ma = re.search(r"\(\(size_t\)datasize\) <= (\d+) \? '\s*'\(%s\)(alloca\(\(size_t\)datasize\)) : NULL;", rec)
    need(ma, "recompiler.py: `((size_t)datasize) <= N ? (T)alloca((size_t)datasize) : NULL` not found")
    inc = open(os.path.join(common.REPO, "src/cffi/_cffi_include.h")).read()
    mi = re.search(r"_cffi_convert_array_argument\(.*?\n\}\n", inc, re.S)
    need(mi, "_cffi_include.h: _cffi_convert_array_argument not found")
    ib = re.sub(r"/\*.*?\*/", " ", mi.group(0), flags=re.S)
    need(re.search(r"if \(p == NULL\) \{.*?PyObject_Malloc\(.*?\).*?fp->next = \*freeme;.*?\}\s*"
                   r"memset\(\(void \*\)p, 0, \(size_t\)datasize\);\s*return _cffi_convert_array_from_object\(p, ctptr, arg\);",
                   ib, re.S),
         "_cffi_convert_array_argument: malloc-when-NULL, memset, then conversion not found")
    ex["api_threshold"], ex["api_small"] = int(ma.group(1)), norm(ma.group(2))
    return ex


def lstr(s):
    return '"' + s.replace("\\", "\\\\").replace('"', '\\"') + '"'


def lean_text(ex):
    return """/-!
How a temporary array for a list/tuple/str pointer argument is obtained, per argument
(see /verif/translate/c13_tmpbuf.py).  Expressions are C text, whitespace-normalised.
-/
namespace CffiVerif.Generated.CallTmpBuf

/-- `cdata_call`, inside the argument loop: `if (datasize <= <threshold>) tmpbuf = <small>; else … <large> …`,
followed by `memset(tmpbuf, 0, datasize)` and the conversion (shape checked by the extractor) -/
def threshold : String := %s
def small : String := %s
def large : String := %s

/-- generated API wrapper: `x = datasize <= <apiThreshold> ? <apiSmall> : NULL`, then `_cffi_convert_array_argument`
(malloc when NULL, memset, conversion — shape checked) -/
def apiThreshold : Nat := %d
def apiSmall : String := %s

end CffiVerif.Generated.CallTmpBuf
""" % (lstr(ex["threshold"]), lstr(ex["small"]), lstr(ex["large"]), ex["api_threshold"], lstr(ex["api_small"]))


def translator(ctx=None):
    def run():
        ex = extract()
        return common.write_generated("CallTmpBuf", lean_text(ex), "cdata_call: small %r (<= %s), large %r; API: %r (<= %d)"
                                      % (ex["small"], ex["threshold"], ex["large"], ex["api_small"], ex["api_threshold"]))
    return run
