"""Regenerate CffiVerif/Generated/AtomicWriteOps.lean from `recompiler._make_c_or_py_source`
of the working tree: the skeleton of I/O statements of its path-target branch.

Extracted (shape-checked with `ast`; anything that does not have exactly the expected shape raises
`Unsupported` -- a function that changed is never translated to something approximately right):

  * `output = f.getvalue()` directly before the `try`;
  * the `try` body: `with open(target_file, 'r') as f1:` containing exactly
    `if f1.read(<limit>) != output: raise OSError` (limit: `len(output) + k`, `len(output)` or absent),
    optional `if verbose: print(...)`, `return <bool>`;
  * one handler `except OSError:` whose body is `tmp_file = '<pattern>' % (target_file, os.getpid())`,
    `with open(tmp_file, 'w') as f1: f1.write(output)`, `try: os.rename(tmp_file, target_file)
    except OSError: os.unlink(target_file); os.rename(tmp_file, target_file)`, `return <bool>`.

The result is a list of abstract steps in program order (open / readCompare / write / close / rename /
unlink / ret) plus the constants (read limit, returned booleans, temp-name pattern, caught exception).
`Model/AtomicWrite.lean` builds its operation sequence and its up-to-date test from them.
"""
import ast
import os

import common
from pyexpr import Unsupported, expect, find_function, dotted, lean_str

PATHVARS = {"target_file": ".target", "tmp_file": ".tmp"}
OSERROR_ALIASES = ("OSError", "IOError", "EnvironmentError")


def _pathvar(node, what):
    if isinstance(node, ast.Name) and node.id in PATHVARS:
        return PATHVARS[node.id]
    raise Unsupported("%s: expected target_file or tmp_file, found `%s`" % (what, ast.unparse(node)))


def _with_open(st, what):
    """`with open(<pathvar>, '<mode>') as f1:` -> (pathvar, mode, body)"""
    if not isinstance(st, ast.With) or len(st.items) != 1:
        raise Unsupported("%s: expected a single-item `with`, found `%s`" % (what, ast.unparse(st)[:60]))
    it = st.items[0]
    c = it.context_expr
    if not (isinstance(c, ast.Call) and dotted(c.func) == "open" and len(c.args) == 2 and not c.keywords
            and isinstance(c.args[1], ast.Constant) and isinstance(c.args[1].value, str)):
        raise Unsupported("%s: expected `open(path, 'mode')`, found `%s`" % (what, ast.unparse(c)))
    if not (isinstance(it.optional_vars, ast.Name) and it.optional_vars.id == "f1"):
        raise Unsupported("%s: the file object is no longer bound to f1" % what)
    mode = c.args[1].value
    if mode not in ("r", "w"):
        raise Unsupported("%s: open mode %r (only 'r' and 'w' are modelled)" % (what, mode))
    return _pathvar(c.args[0], what), mode, st.body


def _os_call(st, name, nargs, what):
    if not (isinstance(st, ast.Expr) and isinstance(st.value, ast.Call) and dotted(st.value.func) == name
            and len(st.value.args) == nargs and not st.value.keywords):
        raise Unsupported("%s: expected `%s(...)`, found `%s`" % (what, name, ast.unparse(st)[:80]))
    return [_pathvar(a, what) for a in st.value.args]


def _ret_bool(st, what):
    if not (isinstance(st, ast.Return) and isinstance(st.value, ast.Constant) and isinstance(st.value.value, bool)):
        raise Unsupported("%s: expected `return True/False`, found `%s`" % (what, ast.unparse(st)[:60]))
    return st.value.value


def _is_verbose_print(st):
    return (isinstance(st, ast.If) and ast.unparse(st.test) == "verbose" and not st.orelse and
            all(isinstance(b, ast.Expr) and isinstance(b.value, ast.Call) and dotted(b.value.func) == "print"
                for b in st.body))


def _handler_name(h, what):
    if h.type is None or dotted(h.type) not in OSERROR_ALIASES or h.name is not None:
        raise Unsupported("%s: expected `except OSError:`, found `except %s`" % (
            what, ast.unparse(h.type) if h.type is not None else ""))
    return dotted(h.type)


def extract():
    src = open(os.path.join(common.REPO, "src", "cffi", "recompiler.py")).read()
    fn = find_function(ast.parse(src), "_make_c_or_py_source")
    if [a.arg for a in fn.args.args] != ["ffi", "module_name", "preamble", "target_file", "verbose"]:
        raise Unsupported("_make_c_or_py_source: parameters changed")
    tr = fn.body[-1]
    if not isinstance(tr, ast.Try) or len(tr.handlers) != 1 or tr.orelse or tr.finalbody:
        raise Unsupported("_make_c_or_py_source no longer ends with a try / single except")
    expect(fn.body[-2], "output = f.getvalue()", "the statement before the try")
    # the file-like branch must still return before any file-system access
    guard = [s for s in fn.body if isinstance(s, ast.If) and ast.unparse(s.test) == "_is_file_like(target_file)"]
    if len(guard) != 1 or not isinstance(guard[0].body[-1], ast.Return):
        raise Unsupported("the `if _is_file_like(target_file):` early return changed")

    # ---- try body
    steps_try = []
    body = [s for s in tr.body if not _is_verbose_print(s)]
    if len(body) != 2:
        raise Unsupported("try body: expected `with open(...)`, [verbose print], `return`; found %d statements: %s"
                          % (len(body), "; ".join(ast.unparse(s).split("\n")[0] for s in body)))
    pv, mode, wbody = _with_open(body[0], "try body")
    if (pv, mode) != (".target", "r"):
        raise Unsupported("try body: expected open(target_file, 'r')")
    steps_try.append('.open %s "r"' % pv)
    if len(wbody) != 1 or not isinstance(wbody[0], ast.If) or wbody[0].orelse:
        raise Unsupported("read-back: expected exactly `if f1.read(...) != output: raise OSError`")
    test = wbody[0].test
    if not (isinstance(test, ast.Compare) and len(test.ops) == 1 and isinstance(test.ops[0], ast.NotEq)
            and ast.unparse(test.comparators[0]) == "output"
            and isinstance(test.left, ast.Call) and dotted(test.left.func) == "f1.read" and not test.left.keywords):
        raise Unsupported("read-back comparison changed shape: `%s`" % ast.unparse(test))
    args = test.left.args
    if not args:
        limit = "none"
    elif len(args) == 1 and ast.unparse(args[0]) == "len(output)":
        limit = "(some 0)"
    elif (len(args) == 1 and isinstance(args[0], ast.BinOp) and isinstance(args[0].op, ast.Add)
          and ast.unparse(args[0].left) == "len(output)" and isinstance(args[0].right, ast.Constant)
          and isinstance(args[0].right.value, int) and args[0].right.value >= 0):
        limit = "(some %d)" % args[0].right.value
    else:
        raise Unsupported("read-back limit changed shape: `%s`" % ast.unparse(args[0]))
    rb = wbody[0].body
    if not (len(rb) == 1 and isinstance(rb[0], ast.Raise) and rb[0].exc is not None
            and dotted(rb[0].exc.func if isinstance(rb[0].exc, ast.Call) else rb[0].exc) in OSERROR_ALIASES):
        raise Unsupported("read-back: a difference must `raise OSError`")
    steps_try.append(".readCompare %s" % limit)
    steps_try.append(".close")
    ret_same = _ret_bool(body[1], "try body")
    steps_try.append(".ret %s" % str(ret_same).lower())

    # ---- handler
    h = tr.handlers[0]
    caught = _handler_name(h, "handler")
    hb = h.body
    if len(hb) != 4:
        raise Unsupported("handler: expected tmp_file assignment, with-open-write, try-rename, return; found %d statements"
                          % len(hb))
    a = hb[0]
    if not (isinstance(a, ast.Assign) and len(a.targets) == 1 and ast.unparse(a.targets[0]) == "tmp_file"
            and isinstance(a.value, ast.BinOp) and isinstance(a.value.op, ast.Mod)
            and isinstance(a.value.left, ast.Constant) and isinstance(a.value.left.value, str)
            and isinstance(a.value.right, ast.Tuple)):
        raise Unsupported("tmp_file assignment changed shape: `%s`" % ast.unparse(a))
    pattern = a.value.left.value
    pargs = [ast.unparse(e) for e in a.value.right.elts]
    if pargs[:1] != ["target_file"] or not pattern.startswith("%s") or pattern == "%s":
        raise Unsupported("the temporary name is no longer target_file plus a non-empty suffix: %r %% %r"
                          % (pattern, pargs))
    steps_h = []
    pv, mode, wbody = _with_open(hb[1], "handler")
    if (pv, mode) != (".tmp", "w"):
        raise Unsupported("handler: expected open(tmp_file, 'w')")
    steps_h.append('.open %s "w"' % pv)
    if not (len(wbody) == 1 and isinstance(wbody[0], ast.Expr) and ast.unparse(wbody[0].value) == "f1.write(output)"):
        raise Unsupported("handler: expected exactly `f1.write(output)` inside the with block")
    steps_h += [".write", ".close"]
    t2 = hb[2]
    if not (isinstance(t2, ast.Try) and len(t2.body) == 1 and len(t2.handlers) == 1 and not t2.orelse and not t2.finalbody):
        raise Unsupported("handler: expected `try: os.rename(...) except OSError: ...`")
    s, d = _os_call(t2.body[0], "os.rename", 2, "rename")
    steps_h.append(".rename %s %s" % (s, d))
    _handler_name(t2.handlers[0], "rename fallback")
    fb = t2.handlers[0].body
    if len(fb) != 2:
        raise Unsupported("rename fallback: expected unlink + rename")
    (u,) = _os_call(fb[0], "os.unlink", 1, "rename fallback")
    s2, d2 = _os_call(fb[1], "os.rename", 2, "rename fallback")
    fallback = [".unlink %s" % u, ".rename %s %s" % (s2, d2)]
    ret_upd = _ret_bool(hb[3], "handler")
    steps_h.append(".ret %s" % str(ret_upd).lower())
    return {"try": steps_try, "handler": steps_h, "fallback": fallback, "caught": caught, "pattern": pattern,
            "pargs": pargs, "limit": limit}


def lean_text():
    d = extract()
    lst = lambda xs: "[" + ", ".join(xs) + "]"
    text = '''/-! Extracted by /verif/translate/c23_atomic_write.py from `_make_c_or_py_source`
(src/cffi/recompiler.py of the working tree): the I/O statements of its path-target branch in
program order.  `Model/AtomicWrite.lean` builds its operation sequence, its up-to-date test and
its return values from these definitions, so the C23 theorems are re-checked against the source. -/
namespace CffiVerif.Generated.AtomicWriteOps

inductive PathVar
  | target     -- `target_file`
  | tmp        -- `tmp_file`
deriving DecidableEq, Repr

inductive Step
  | open (p : PathVar) (mode : String)    -- `with open(p, mode) as f1:`
  | readCompare (limit : Option Nat)      -- `if f1.read(len(output) + limit) != output: raise OSError` (none: `f1.read()`)
  | write                                 -- `f1.write(output)`
  | close                                 -- the end of the `with` block
  | rename (src dst : PathVar)            -- `os.rename(src, dst)`
  | unlink (p : PathVar)                  -- `os.unlink(p)`
  | ret (updated : Bool)                  -- `return updated`
deriving DecidableEq, Repr

/-- The body of the `try`. -/
def tryBody : List Step := %s

/-- The body of `except %s:`. -/
def handlerBody : List Step := %s

/-- The body of the inner `except OSError:` around the first `os.rename`. -/
def renameFallback : List Step := %s

def caught : String := %s
/-- `tmp_file = tmpPattern %% (%s)` -/
def tmpPattern : String := %s

end CffiVerif.Generated.AtomicWriteOps
''' % (lst(d["try"]), d["caught"], lst(d["handler"]), lst(d["fallback"]), lean_str(d["caught"]),
       ", ".join(d["pargs"]), lean_str(d["pattern"]))
    return text, d


def run():
    text, d = lean_text()
    return common.write_generated("AtomicWriteOps", text,
                                  "try=%s handler=%s fallback=%s tmp=%r" % (d["try"], d["handler"], d["fallback"], d["pattern"]))


if __name__ == "__main__":
    print(lean_text()[0])
