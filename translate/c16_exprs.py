"""Translator for C16: re-extracts, at named extraction points of /repo/src/c/_cffi_backend.c, the bound tests and the
address / length arithmetic of `_cdata_get_indexed_ptr`, `_cdata_getslicearg`, `cdata_slice`, `cdata_ass_slice`,
`_cdata_add_or_sub`, `cdata_sub` and `direct_typeoffsetof` (with the macro `MUL_WRAPAROUND`) into
lean/CffiVerif/Generated/IndexExprs.lean.  The control structure around them (which test guards which branch) is
checked textually -- a function that no longer has the modelled shape makes the translator fail -- and is
hand-modelled in Model/Index.lean, which uses the generated definitions for every condition and every
arithmetic expression.

`PropEmitter` (also used by c19_exprs.py) translates C integer expressions over `Py_ssize_t` values to Lean terms
over `Int` -- `/` and `%` are C's truncating `Int.tdiv` / `Int.tmod` -- and C conditions to decidable `Prop`s.
Wrap-around is not applied by the emitter: the model applies `wrapU` / `wrapS` where the C value is a pointer or
may overflow, exactly where it did before."""
import os
import re
import sys

sys.path.insert(0, os.path.dirname(os.path.abspath(__file__)))
import cexpr
from cexpr import CExprError, parse


class PropEmitter:
    """env: C name (identifier or a->b->c chain) -> Lean variable name (all of type Int)."""

    def __init__(self, env):
        self.env = env

    def term(self, e):
        k = e[0]
        if k == "num":
            return "%d" % int(re.sub(r"[uUlL]+$", "", e[1]), 0)
        if k == "id":
            if e[1] not in self.env:
                raise CExprError("unknown variable %s" % e[1])
            return self.env[e[1]]
        if k == "un" and e[1] == "-":
            return "(-%s)" % self.term(e[2])
        if k == "bin" and e[1] in ("+", "-", "*"):
            return "(%s %s %s)" % (self.term(e[2]), e[1], self.term(e[3]))
        if k == "bin" and e[1] == "/":
            return "(Int.tdiv %s %s)" % (self.term(e[2]), self.term(e[3]))
        if k == "bin" and e[1] == "%":
            return "(Int.tmod %s %s)" % (self.term(e[2]), self.term(e[3]))
        raise CExprError("unsupported term %r" % (e,))

    def cond(self, e):
        k = e[0]
        if k == "bin" and e[1] == "||":
            return "(%s ∨ %s)" % (self.cond(e[2]), self.cond(e[3]))
        if k == "bin" and e[1] == "&&":
            return "(%s ∧ %s)" % (self.cond(e[2]), self.cond(e[3]))
        if k == "un" and e[1] == "!":
            return "(¬ %s)" % self.cond(e[2])
        if k == "bin" and e[1] in ("<", ">", "<=", ">=", "==", "!="):
            op = {"<": "<", ">": ">", "<=": "≤", ">=": "≥", "==": "=", "!=": "≠"}[e[1]]
            return "(%s %s %s)" % (self.term(e[2]), op, self.term(e[3]))
        # an integer used as a truth value
        return "(%s ≠ 0)" % self.term(e)


class Out:
    """Collects generated definitions."""

    def __init__(self, namespace, imports):
        self.lines = ["import %s" % i for i in imports] + ["set_option linter.unusedVariables false", "",
                                                            "namespace %s" % namespace, ""]
        self.namespace = namespace
        self.summary = {}

    def prop(self, name, params, text, term):
        ps = " ".join(params)
        self.lines.append("/-- `%s` -/\ndef %s (%s : Int) : Prop :=\n  %s\n" % (text, name, ps, term))
        self.lines.append("instance (%s : Int) : Decidable (%s %s) := by\n  unfold %s; exact inferInstance\n"
                          % (ps, name, ps, name))
        self.summary[name] = text

    def val(self, name, params, text, term):
        self.lines.append("/-- `%s` -/\ndef %s (%s : Int) : Int :=\n  %s\n" % (text, name, " ".join(params), term))
        self.summary[name] = text

    def text(self):
        return "\n".join(self.lines + ["end %s" % self.namespace]) + "\n"


def function_body(src, name):
    """Text of the body of the (unique) definition of C function `name`."""
    ms = list(re.finditer(r"(?<![\w>.])%s\s*\([^()]*\)\s*\{" % re.escape(name), src))
    if len(ms) != 1:
        raise CExprError("expected one definition of %s, found %d" % (name, len(ms)))
    i = ms[0].end()
    depth = 1
    while depth:
        c = src[i]
        depth += (c == "{") - (c == "}")
        i += 1
    return src[ms[0].end():i - 1]


def flat_body(src, name):
    return re.sub(r"\s+", " ", cexpr.strip_c_comments(function_body(src, name)))


def shape(flat, pattern, what):
    m = re.search(pattern, flat)
    if not m:
        raise CExprError("%s no longer has the modelled shape" % what)
    return {k: v.strip() for k, v in m.groupdict().items()}


def sub(text, table):
    """Replace calls / lvalues the expression grammar does not cover by plain names (each must be declared)."""
    for a, b in table:
        text = text.replace(a, b)
    return text


def generate(repo):
    src = open(os.path.join(repo, "src/c/_cffi_backend.c")).read()
    out = Out("CffiVerif.Generated.IndexExprs", ["CffiVerif.Model.IndexBase"])
    out.lines.insert(len(out.lines) - 1, "open CffiVerif.Index (wrapS)")

    # ---- MUL_WRAPAROUND: the product computed in size_t, reinterpreted as Py_ssize_t
    m = re.search(r"#define MUL_WRAPAROUND\(x, y\)\s+(.*)", src)
    if not m or re.sub(r"\s+", "", m.group(1)) != "((Py_ssize_t)(((size_t)(x))*((size_t)(y))))":
        raise CExprError("MUL_WRAPAROUND is no longer the wrap-around product")
    out.val("mulWraparound", ["x", "y"], "#define MUL_WRAPAROUND(x, y) " + m.group(1).strip(), "wrapS (x * y)")

    # ---- _cdata_get_indexed_ptr
    f = flat_body(src, "_cdata_get_indexed_ptr")
    g = shape(f, r"if \(cd->c_type->ct_flags & CT_POINTER\) \{ if \(CDataOwn_Check\(cd\)\) \{ if \((?P<own>[^{}]*?)\) \{ "
                 r"PyErr_Format\(PyExc_IndexError,.*?return NULL; \} \} else \{ if \((?P<null>[^{}]*?)\) \{ "
                 r"PyErr_Format\(PyExc_RuntimeError,.*?\} \} \} "
                 r"else if \(cd->c_type->ct_flags & CT_ARRAY\) \{ if \((?P<neg>[^{}]*?)\) \{ "
                 r"PyErr_SetString\(PyExc_IndexError,.*?return NULL; \} if \((?P<big>[^{}]*?)\) \{ "
                 r"PyErr_Format\(PyExc_IndexError,.*?return NULL; \} \} else \{ PyErr_Format\(PyExc_TypeError,.*?\} "
                 r"return (?P<addr>[^;]*);", "_cdata_get_indexed_ptr")
    calls = [("get_array_length(cd)", "array_length"), ("cffi_get_size(cd->c_type->ct_itemdescr)", "itemsize"),
             ("cd->c_data", "c_data"), ("NULL", "0")]
    em = PropEmitter({"i": "i", "array_length": "n", "itemsize": "itemsize", "c_data": "cdata"})
    out.prop("ownPtrIndexRejected", ["i"], g["own"], em.cond(parse(g["own"])))
    out.prop("ptrIsNull", ["cdata"], g["null"], em.cond(parse(sub(g["null"], calls))))
    out.prop("arrayIndexNegative", ["i"], g["neg"], em.cond(parse(g["neg"])))
    out.prop("arrayIndexTooLarge", ["i", "n"], g["big"], em.cond(parse(sub(g["big"], calls))))
    out.val("itemAddr", ["cdata", "i", "itemsize"], "return " + g["addr"], em.term(parse(sub(g["addr"], calls))))

    # ---- _cdata_getslicearg
    f = flat_body(src, "_cdata_getslicearg")
    g = shape(f, r"if \(slice->step != Py_None\) \{.*?\} if \((?P<order>[^{}]*?)\) \{ PyErr_SetString\(PyExc_IndexError,"
                 r".*?\} ct = cd->c_type; if \(ct->ct_flags & CT_ARRAY\) \{ if \((?P<neg>[^{}]*?)\) \{ "
                 r"PyErr_SetString\(PyExc_IndexError,.*?\} if \((?P<big>[^{}]*?)\) \{ PyErr_Format\(PyExc_IndexError,"
                 r".*?\} ct = \(CTypeDescrObject \*\)ct->ct_stuff; \} else if \(!\(ct->ct_flags & CT_POINTER\)\) \{.*?\} "
                 r"bounds\[0\] = (?P<b0>[^;]*); bounds\[1\] = (?P<b1>[^;]*); return ct;", "_cdata_getslicearg")
    em = PropEmitter({"start": "start", "stop": "stop", "array_length": "n"})
    out.prop("sliceStartAfterStop", ["start", "stop"], g["order"], em.cond(parse(g["order"])))
    out.prop("sliceStartNegative", ["start"], g["neg"], em.cond(parse(g["neg"])))
    out.prop("sliceStopTooLarge", ["stop", "n"], g["big"], em.cond(parse(sub(g["big"], calls))))
    out.val("sliceBound0", ["start", "stop"], "bounds[0] = " + g["b0"], em.term(parse(g["b0"])))
    out.val("sliceBound1", ["start", "stop"], "bounds[1] = " + g["b1"], em.term(parse(g["b1"])))

    # ---- cdata_slice / cdata_ass_slice
    f = flat_body(src, "cdata_slice")
    g = shape(f, r"cdata = (?P<addr>[^;]*); return new_sized_cdata\(cdata, array_type, (?P<len>[^;]*)\);", "cdata_slice")
    em = PropEmitter({"c_data": "cdata", "array_type->ct_itemdescr->ct_size": "itemsize", "itemsize": "itemsize",
                      "bounds0": "bounds0", "bounds1": "bounds1"})
    lv = [("cd->c_data", "c_data"), ("bounds[0]", "bounds0"), ("bounds[1]", "bounds1")]
    out.val("sliceAddr", ["cdata", "itemsize", "bounds0"], "cdata = " + g["addr"], em.term(parse(sub(g["addr"], lv))))
    out.val("sliceLength", ["bounds1"], "new_sized_cdata(cdata, array_type, %s)" % g["len"],
            em.term(parse(sub(g["len"], lv))))
    f = flat_body(src, "cdata_ass_slice")
    g = shape(f, r"itemsize = ct->ct_size; cdata = (?P<addr>[^;]*); length = (?P<len>[^;]*);", "cdata_ass_slice")
    out.val("assSliceAddr", ["cdata", "itemsize", "bounds0"], "cdata = " + g["addr"], em.term(parse(sub(g["addr"], lv))))
    out.val("assSliceLength", ["bounds1"], "length = " + g["len"], em.term(parse(sub(g["len"], lv))))
    g = shape(f, r"\(get_array_length\(\(CDataObject \*\)v\) == length\)\) \{ memmove\(cdata, "
                 r"\(\(CDataObject \*\)v\)->c_data, (?P<n>[^;]*)\); return 0; \}", "cdata_ass_slice (fast path)")
    em2 = PropEmitter({"itemsize": "itemsize", "length": "length"})
    out.val("assSliceMoveBytes", ["itemsize", "length"], "memmove(cdata, v->c_data, %s)" % g["n"], em2.term(parse(g["n"])))
    g = shape(f, r"if \((?P<ne>srclen != length)\) \{ PyErr_Format\(PyExc_ValueError,", "cdata_ass_slice (bytes path)")
    em2 = PropEmitter({"srclen": "srclen", "length": "length"})
    out.prop("assSliceBytesLenMismatch", ["srclen", "length"], g["ne"], em2.cond(parse(g["ne"])))

    # ---- _cdata_add_or_sub
    f = flat_body(src, "_cdata_add_or_sub")
    g = shape(f, r"if \(i == -1 && PyErr_Occurred\(\)\) return NULL; i (?P<mulop>\*=) (?P<mul>sign); .*?"
                 r"itemsize = cffi_get_size\(ctptr->ct_itemdescr\); if \((?P<unk>[^{}]*?)\) \{ "
                 r"if \(ctptr->ct_flags & CT_IS_VOID_PTR\) \{ itemsize = (?P<void>[^;]*); \}.*?"
                 r"return new_simple_cdata\((?P<addr>[^;]*), ctptr\);", "_cdata_add_or_sub")
    em = PropEmitter({"i": "i", "sign": "sign", "itemsize": "itemsize", "c_data": "cdata"})
    out.val("addScaled", ["i", "sign"], "i *= sign", em.term(parse("i * " + g["mul"])))
    out.prop("addItemSizeUnknown", ["itemsize"], g["unk"], em.cond(parse(g["unk"])))
    out.val("addVoidItemSize", ["itemsize"], "itemsize = " + g["void"], em.term(parse(g["void"])))
    out.val("addAddr", ["cdata", "i", "itemsize"], "new_simple_cdata(%s, ctptr)" % g["addr"],
            em.term(parse(sub(g["addr"], lv))))

    # ---- cdata_sub (pointer - pointer)
    f = flat_body(src, "cdata_sub")
    g = shape(f, r"if \(ct != cdv->c_type \|\| !\(ct->ct_flags & CT_POINTER\) \|\| "
                 r"\((?P<sz>ct->ct_itemdescr->ct_size <= 0) && !\(ct->ct_flags & CT_IS_VOID_PTR\)\)\) \{ "
                 r"PyErr_Format\(PyExc_TypeError,.*?\} itemsize = ct->ct_itemdescr->ct_size; diff = (?P<diff>[^;]*); "
                 r"if \((?P<gt1>[^{}]*?)\) \{ if \((?P<mod>[^{}]*?)\) \{ PyErr_SetString\(PyExc_ValueError,.*?\} "
                 r"diff = (?P<div>[^;]*); \} return PyLong_FromSsize_t\(diff\);", "cdata_sub")
    em = PropEmitter({"ct->ct_itemdescr->ct_size": "itemsize", "itemsize": "itemsize", "diff": "diff",
                      "cdv->c_data": "v", "cdw->c_data": "w"})
    out.prop("subItemSizeNotPositive", ["itemsize"], g["sz"], em.cond(parse(g["sz"])))
    out.val("subByteDiff", ["v", "w"], "diff = " + g["diff"], em.term(parse(g["diff"])))
    out.prop("subNeedsDivision", ["itemsize"], g["gt1"], em.cond(parse(g["gt1"])))
    out.prop("subNotMultiple", ["diff", "itemsize"], g["mod"], em.cond(parse(g["mod"])))
    out.val("subItemDiff", ["diff", "itemsize"], "diff = " + g["div"], em.term(parse(g["div"])))

    # ---- direct_typeoffsetof (integer index)
    f = flat_body(src, "direct_typeoffsetof")
    g = shape(f, r"if \(!\(ct->ct_flags & \(CT_ARRAY\|CT_POINTER\)\) \|\| (?P<unk>ct->ct_itemdescr->ct_size < 0)\) \{ "
                 r"PyErr_SetString\(PyExc_TypeError,.*?\} res = ct->ct_itemdescr; "
                 r"\*offset = MUL_WRAPAROUND\((?P<ma>[^,()]*), (?P<mb>[^,()]*)\); "
                 r"if \((?P<ovf>[^{}]*?)\) \{ PyErr_SetString\(PyExc_OverflowError,", "direct_typeoffsetof")
    em = PropEmitter({"index": "index", "ct->ct_itemdescr->ct_size": "itemsize", "offset": "offset"})
    out.prop("offsetofItemSizeUnknown", ["itemsize"], g["unk"], em.cond(parse(g["unk"])))
    out.val("offsetofOffset", ["index", "itemsize"], "*offset = MUL_WRAPAROUND(%s, %s)" % (g["ma"], g["mb"]),
            "mulWraparound %s %s" % (em.term(parse(g["ma"])), em.term(parse(g["mb"]))))
    out.prop("offsetofOverflow", ["offset", "index", "itemsize"], g["ovf"],
             em.cond(parse(sub(g["ovf"], [("*offset", "offset")]))))
    return out.text(), out.summary


def translator():
    import common
    text, summary = generate(common.REPO)
    return common.write_generated("IndexExprs", text, summary)


if __name__ == "__main__":
    print(generate(sys.argv[1] if len(sys.argv) > 1 else "/repo")[0])
