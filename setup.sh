#!/bin/bash
# Builds the Lean library (models, proofs, property theorems) from files on disk.
set -e
cd "$(dirname "$0")/lean"
lake build 2>&1 | grep -v "^trace" | tail -40
