#!/usr/bin/env python3
"""Refresh the generated parts of DESIGN.md (between <!-- X:BEGIN --> and <!-- X:END -->):
ASBUILT (tools/gen_asbuilt.py), SEEDED (seeded/*/meta.json), FIXES (fixed: lines of KNOWN_FINDINGS.jsonl)."""
import glob, json, os, re, subprocess
HERE = os.path.dirname(os.path.dirname(os.path.abspath(__file__)))
p = os.path.join(HERE, "DESIGN.md")
s = open(p).read()

def put(key, text):
    global s
    s = re.sub(r"<!-- %s:BEGIN -->.*?<!-- %s:END -->" % (key, key),
               lambda m: "<!-- %s:BEGIN -->\n%s\n<!-- %s:END -->" % (key, text.strip("\n"), key), s, flags=re.S)

put("ASBUILT", subprocess.run(["python3", os.path.join(HERE, "tools/gen_asbuilt.py")], stdout=subprocess.PIPE,
                              universal_newlines=True).stdout)
rows = ["Each change was written by a fresh sub-agent that saw only the property text and its own worktree, "
        "confirmed by the lead (`tools/confirm_seed.sh`: compiles; demo fails with it and passes without; existing suite "
        "passes with it) and then run against the checks (`tools/seed_eval.sh`: scratch copy of `/repo/src` with the patch, "
        "`VERIF_REPO`, seeds 0–2; equivalent to `git -C /repo apply` / `checkout -- .`, used while other work shared `/repo`).",
        "", "| seeded | breaks | what it needs to manifest | caught by |", "|---|---|---|---|"]
for d in sorted(glob.glob(os.path.join(HERE, "seeded", "*"))):
    try:
        m = json.load(open(os.path.join(d, "meta.json")))
    except Exception:
        continue
    def one(x):
        return re.sub(r"\s+", " ", str(x)).replace("|", "\\|")[:420]
    rows.append("| `seeded/%s` | %s | %s | %s |" % (os.path.basename(d), one(m.get("summary", ""))[:300],
                one(m.get("needs_to_manifest", m.get("what_it_needs_to_manifest", ""))), one(m.get("detection", ""))))
put("SEEDED", "\n".join(rows))
fx = []
for l in open(os.path.join(HERE, "KNOWN_FINDINGS.jsonl")):
    m = re.match(r"fixed: property=(C\d+) (\w+) (.*)", l.strip())
    if m:
        fx.append("* **%s** `%s` — %s" % m.groups())
put("FIXES", "\n".join(fx))
open(p, "w").write(s)
print("DESIGN.md refreshed")
