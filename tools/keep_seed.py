#!/usr/bin/env python3
"""tools/keep_seed.py ID NAME 'detection note'  -- copy a confirmed seeded change from /tmp/wt-ID-out to
seeded/NAME/ (patch.diff, demo, meta.json augmented with the lead's own confirmation and detection results)."""
import json, os, shutil, sys, re
ID, NAME = sys.argv[1], sys.argv[2]
_here = os.path.dirname(os.path.abspath(__file__))
NOTE = sys.argv[3] if len(sys.argv) > 3 else json.load(open(os.path.join(_here, "seed_notes.json")))[NAME]
_cn = {}
if os.path.exists(os.path.join(_here, "confirm_notes.json")):
    _cn = json.load(open(os.path.join(_here, "confirm_notes.json")))
src = "%s%s-out" % (os.environ.get("WTPREFIX", "/tmp/wt-"), ID)
dst = os.path.join(os.path.dirname(os.path.dirname(os.path.abspath(__file__))), "seeded", NAME)
os.makedirs(dst, exist_ok=True)
shutil.copy(os.path.join(src, "patch.diff"), dst)
for f in ("demo.py", "demo.sh"):
    if os.path.exists(os.path.join(src, f)):
        shutil.copy(os.path.join(src, f), dst)
meta = {}
try:
    meta = json.load(open(os.path.join(src, "meta.json")))
except Exception as e:
    meta = {"note": "sub-agent's meta.json missing or invalid: %r" % (e,)}
verdict = ""
log = os.path.join(src, "confirm.log")
if os.path.exists(log):
    lines = open(log).read().strip().split("\n")
    verdict = [l for l in lines if l.startswith("VERDICT")][-1] if any(l.startswith("VERDICT") for l in lines) else ""
meta["property"] = ID
meta["confirmed_by_lead"] = {
    "what_i_ran": "tools/confirm_seed.sh %s in the scratch worktree: built the backend with the change, ran the demo with the change "
                  "(must exit non-zero) and on the clean tree, i.e. the worktree after `git checkout -- .` (must exit 0), ran the existing suite with the change "
                  "(src/c testing/cffi0 testing/cffi1 under xdist, then every test that failed under xdist -- races of the verify() tests on "
                  "the shared testing/cffi0/__pycache__ -- again serially; C01/C15/C16 were confirmed with an earlier variant that ran the "
                  "verify()/vgen/zdistutils files serially in full)" % ID,
    "verdict": verdict,
}
if NAME in _cn:
    meta["confirmed_by_lead"]["note"] = _cn[NAME]
meta["detection"] = NOTE
json.dump(meta, open(os.path.join(dst, "meta.json"), "w"), indent=1)
print("kept", dst, verdict)
