#!/bin/bash
# tools/confirm_seed.sh ID  -- confirm a seeded change produced by a mutation sub-agent in /tmp/wt-ID:
# (1) it compiles, (2) the demo fails with it and passes without it, (3) the existing suite passes with it.
# Writes /tmp/wt-ID-out/confirm.log and prints a one-line verdict.
ID=$1; WT=${WTPREFIX:-/tmp/wt-}$ID; OUT=${WTPREFIX:-/tmp/wt-}$ID-out; LOG=$OUT/confirm.log
export TMPDIR=$(mktemp -d /tmp/confirm-$ID.XXXX)
PY=/venv/bin/python
INC=$($PY -c 'import sysconfig;print(sysconfig.get_paths()["include"])')
exec > $LOG 2>&1
cd $WT || exit 9
git diff > $OUT/patch.check.diff
cmp -s $OUT/patch.check.diff $OUT/patch.diff || echo "NOTE: worktree diff differs from patch.diff"
D=$(mktemp -d)
build() { gcc -shared -fPIC -O1 -w -DFFI_BUILDING=1 -DUSE__THREAD -DHAVE_SYNC_SYNCHRONIZE -I$WT/src/c -I$INC $WT/src/c/_cffi_backend.c -lffi -o $D/_cffi_backend.cpython-312-x86_64-linux-gnu.so; }
DEMO=$OUT/demo.py; RUN="$PY $DEMO $WT"; [ -f $DEMO ] || { DEMO=$OUT/demo.sh; RUN="bash $DEMO $WT"; }
echo "== build with change"; build || { echo "VERDICT $ID compile-failed"; exit 1; }
echo "== demo with change"; (cd $OUT && timeout 900 $RUN) ; dw=$?; echo "demo exit with change: $dw"
echo "== suite with change (xdist, everything)"
cd $WT
PYTHONPATH=$D:$WT/src timeout 5000 $PY -m pytest -q -p no:cacheprovider --timeout=900 -n ${CONFIRM_JOBS:-6} -rf src/c testing/cffi0 testing/cffi1 \
   > $OUT/suite_par.full.txt 2>&1 < /dev/null     # to a file: an orphaned xdist worker must not keep a pipe open
tail -60 $OUT/suite_par.full.txt > $OUT/suite_par.txt; rm -f $OUT/suite_par.full.txt
tail -3 $OUT/suite_par.txt
grep -oE "^FAILED [^ ]+" $OUT/suite_par.txt | sed 's/^FAILED //' | sort -u > $OUT/suite_failed_ids.txt
echo "== failures under xdist re-run serially ($(wc -l < $OUT/suite_failed_ids.txt) tests; xdist races on testing/cffi0/__pycache__ are expected)"
if [ -s $OUT/suite_failed_ids.txt ]; then
  rm -f testing/cffi0/__pycache__/test_use_local_dir* testing/cffi0/__pycache__/*local_dir*   # half-written .so left by the xdist race
  PYTHONPATH=$D:$WT/src timeout 5000 $PY -m pytest -q -p no:cacheprovider --timeout=900 -p no:xdist $(cat $OUT/suite_failed_ids.txt | tr '\n' ' ') > $OUT/suite_ser.full.txt 2>&1 < /dev/null
  tail -5 $OUT/suite_ser.full.txt | tee $OUT/suite_ser.txt; rm -f $OUT/suite_ser.full.txt
else
  echo "0 failed (nothing to re-run)" | tee $OUT/suite_ser.txt
fi
echo "== demo without change"
# (no `git stash`: the stash stack is shared by all worktrees of a repository)
git diff > $OUT/patch.restore.diff; git checkout -q -- .
build; (cd $OUT && timeout 900 $RUN); dc=$?; echo "demo exit clean: $dc"
git apply $OUT/patch.restore.diff; rm -f $OUT/patch.restore.diff
rm -rf $D $TMPDIR
xd=$(tail -1 $OUT/suite_par.txt | grep -oE "[0-9]+ (passed|failed)" | tr '\n' ' ')
sr=$(tail -1 $OUT/suite_ser.txt | grep -oE "[0-9]+ (passed|failed)" | tr '\n' ' ')
echo "VERDICT $ID demo_with=$dw demo_clean=$dc xdist=[$xd] serial_rerun_of_xdist_failures=[$sr]"
