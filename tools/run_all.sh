#!/bin/bash
# tools/run_all.sh [tier] [seeds...]  -- run every claimed check (MANIFEST.json) for the given seeds,
# a few at a time, and print one summary line per (property, seed).  Exit 0 iff all exit 0.
cd "$(dirname "$0")/.."
TIER="${1:-quick}"; shift
SEEDS="${*:-0}"
PROPS=$(python3 -c "import json;print(' '.join(c['property_id'] for c in json.load(open('MANIFEST.json'))['checks']))")
OUT=$(mktemp -d)
rc=0
run_one() { p=$1; s=$2; t0=$(date +%s); VERIF_SEED=$s ./check $p --tier $TIER > $OUT/$p-$s.out 2> $OUT/$p-$s.err; e=$?; t1=$(date +%s);
  echo "$p seed=$s exit=$e wall=$((t1-t0))s $(grep -c '^KNOWN-FINDING' $OUT/$p-$s.out) known $(grep '^VIOLATION' $OUT/$p-$s.out | head -1)"; }
export -f run_one; export OUT TIER
for s in $SEEDS; do for p in $PROPS; do echo "$p $s"; done; done | xargs -P "${VERIF_JOBS:-6}" -L1 bash -c 'run_one $0 $1' | tee $OUT/summary
grep -qv "exit=0" $OUT/summary && rc=1
echo "logs in $OUT"
exit $rc
