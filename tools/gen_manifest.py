#!/usr/bin/env python3
"""Regenerate /verif/MANIFEST.json from the `MANIFEST = {...}` literal at the top
of each harness/corr_Cxx.py (text, note, technique, design_ref) and from
properties.jsonl (every property not claimed is listed under not_applicable)."""
import ast, json, os, re, sys

HERE = os.path.dirname(os.path.dirname(os.path.abspath(__file__)))
props = [json.loads(l)["id"] for l in open(os.path.join(HERE, "properties.jsonl"))]
pending = {}
pfile = os.path.join(HERE, "tools", "not_claimed.json")
if os.path.exists(pfile):
    pending = json.load(open(pfile))
# only properties reviewed and integrated by the lead are claimed
claimed = set(json.load(open(os.path.join(HERE, "tools", "claimed.json"))))

checks, na = [], []
for pid in props:
    path = os.path.join(HERE, "harness", "corr_%s.py" % pid)
    meta = None
    if os.path.exists(path):
        tree = ast.parse(open(path).read())
        for node in tree.body:
            if isinstance(node, ast.Assign) and getattr(node.targets[0], "id", "") == "MANIFEST":
                meta = ast.literal_eval(node.value)
    if meta is None or pid in pending or pid not in claimed:
        na.append({"property_id": pid,
                   "reason": pending.get(pid, "check not built yet in this round (design in DESIGN.md section 6); not claimed")})
        continue
    checks.append({
        "property_id": pid,
        "quick_cmd": "./check %s --tier quick" % pid,
        "thorough_cmd": "./check %s --tier thorough" % pid,
        "evidence_file": "evidence/%s.json" % pid,
        "replay_cmd_template": "./check %s --replay {path}" % pid,
        "engine": "lean4-proof+correspondence",
        "level_claimed": {"category": "proof", "text": meta["text"], "design_ref": "DESIGN.md section 6, " + pid},
        "level_note": meta["note"],
        "technique": meta["technique"],
    })

man = {
    "version": 1,
    "setup_cmd": "./setup.sh",
    "hooks": {
        "guard": "PYTHON_CFFI_CFFI_VERIF",
        "enable": "no source hooks are needed: checks rebuild _cffi_backend from /repo/src/c with -DPYTHON_CFFI_CFFI_VERIF=1 and put it, with /repo/src, first on PYTHONPATH; internal C functions are reached by #including the repo's files unmodified in csrc/*_wrap.c",
        "baseline_off_cmd": "cd /repo && /venv/bin/python -m pytest -ra -q -p no:cacheprovider --timeout=900 --continue-on-collection-errors",
        "source_commits": [],
        "add_only": True,
    },
    "engines": [{
        "name": "lean4-proof+correspondence",
        "path": "lean/ (models, theorems), translate/ (regenerated tables), harness/ (correspondence, failing-input search)",
        "serves_properties": [c["property_id"] for c in checks],
        "kind_free_text": "machine-checked proof in Lean 4 of theorems about executable models; models tied to /repo on every run by regenerated tables and by differential execution against the rebuilt implementation",
    }],
    "checks": checks,
    "not_applicable": na,
    "notes": "See DESIGN.md. Exit codes of ./check: 0 held, 1 VIOLATION, 2 infrastructure error (tree does not build).",
}
with open(os.path.join(HERE, "MANIFEST.json"), "w") as f:
    json.dump(man, f, indent=1)
    f.write("\n")
print("claimed:", [c["property_id"] for c in checks])
print("not claimed:", [n["property_id"] for n in na])
