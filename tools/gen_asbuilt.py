#!/usr/bin/env python3
"""Print the 'as built' table of DESIGN.md section 11 from evidence/*.json, the MANIFEST literals and KNOWN_FINDINGS.jsonl."""
import ast, json, os, re, glob
HERE = os.path.dirname(os.path.dirname(os.path.abspath(__file__)))
find = {}
fixed = {}
for l in open(os.path.join(HERE, "KNOWN_FINDINGS.jsonl")):
    l = l.strip()
    if l.startswith("fixed:"):
        m = re.match(r"fixed: property=(C\d+) (\w+)", l)
        fixed.setdefault(m.group(1), []).append(m.group(2))
    elif l and not l.startswith("#"):
        e = json.loads(l)
        find.setdefault(e["property"], []).append(e["class"].split("/", 1)[1])
print("| ID | theorems (kernel-checked, `Props/Cxx.lean`) | regenerated from source | quick run: cases / distinct | open finding classes | repaired |")
print("|---|---|---|---|---|---|")
for p in sorted(glob.glob(os.path.join(HERE, "evidence", "C*.json"))):
    e = json.load(open(p))
    c = e["coverage"]
    pid = e["property_id"]
    th = [t.split(".")[-1] for t in c.get("theorems", [])]
    regen = ", ".join(sorted(set(r.get("generated", "").replace("CffiVerif.Generated.", "") for r in c.get("regenerated", []) if isinstance(r, dict)))) or "—"
    print("| %s | %d: %s | %s | %s / %s | %s | %s |" % (
        pid, c["obligations"], ", ".join("`%s`" % t for t in th), regen, c["evaluations"], c["distinct_nontrivial"],
        ", ".join(find.get(pid, [])) or "—", ", ".join(fixed.get(pid, [])) or "—"))
