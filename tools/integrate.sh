#!/bin/bash
# tools/integrate.sh ID...  -- run the check of each property for seeds 0 1 2, validate the evidence,
# and claim it (tools/claimed.json) when everything exits 0 without a VIOLATION line.
cd "$(dirname "$0")/.."
for ID in "$@"; do
  ok=1
  for s in 0 1 2; do
    out=$(VERIF_SEED=$s ./check $ID 2>/tmp/integ-$ID-$s.err); e=$?
    if [ $e -ne 0 ] || echo "$out" | grep -q VIOLATION; then ok=0; echo "$ID seed=$s exit=$e"; echo "$out" | tail -3; tail -5 /tmp/integ-$ID-$s.err; fi
    rm -f /tmp/integ-$ID-$s.err
  done
  python3-vt -c "
import json,jsonschema,sys
e=json.load(open('evidence/$ID.json'))
jsonschema.validate(e, json.load(open('/root/.vp/EVIDENCE.schema.json')))
c=e['coverage']; print('$ID evidence ok: obligations',c['obligations'],'discharged',c['discharged'],'evals',c['evaluations'],'distinct',c['distinct_nontrivial'],'wall',e['wall_s'])
assert c['obligations']==c['discharged']>0
" || ok=0
  if [ $ok = 1 ]; then python3 - <<P
import json
p='tools/claimed.json'; c=set(json.load(open(p))); c.add('$ID'); json.dump(sorted(c), open(p,'w'))
P
  echo "$ID CLAIMED"; else echo "$ID NOT claimed"; fi
done
python3 tools/gen_manifest.py | head -1
