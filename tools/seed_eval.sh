#!/bin/bash
# tools/seed_eval.sh PATCH PROP [seeds...] -- run ./check PROP against a scratch copy of /repo/src with PATCH applied
# (VERIF_REPO), for the given seeds; then re-run the clean check once so Generated/*.lean is back in sync.
PATCH=$(realpath "$1"); PROP=$2; shift 2; SEEDS="${*:-0 1 2}"
cd "$(dirname "$0")/.."
MR=$(mktemp -d /tmp/mr-XXXXXX)
cp -r /repo/src $MR/src
( cd $MR && git apply --unsafe-paths --directory=$MR "$PATCH" ) || { echo "patch does not apply"; rm -rf $MR; exit 9; }
det=0; n=0
for s in $SEEDS; do
  out=$(VERIF_SEED=$s VERIF_REPO=$MR ./check $PROP 2>/dev/null | grep -v "^KNOWN-FINDING"); e=$?
  n=$((n+1)); [ -n "$(echo "$out" | grep VIOLATION)" ] && det=$((det+1))
  echo "  $PROP seed=$s: $(echo "$out" | grep VIOLATION | head -1 | cut -c1-120)"
  [ -f replays/$PROP-$s.json ] && cp replays/$PROP-$s.json $MR/replay-$s.json
done
echo "RESULT $PROP detected $det/$n"
[ -f $MR/replay-0.json ] && python3 -c "
import json;d=json.load(open('$MR/replay-0.json'));print('  kind:',d.get('kind'));print('  detail:',str(d.get('detail'))[:300]);print('  case:',json.dumps(d.get('case'))[:400])"
rm -rf $MR
./check $PROP > /dev/null 2>&1; echo "  clean re-run exit=$?"
