/* C14: direct access to convert_from_object_fficallback() of the working tree.
 *
 * The backend is compiled a second time, unmodified, inside this translation unit
 * (-I$REPO/src/c) and loaded as the module `_c14wrap`; the extra entry point below is
 * reached through ctypes.PyDLL on the same shared object.  Types must be created with
 * this module instance (`_c14wrap.new_primitive_type(...)`).
 */
#include "_cffi_backend.c"

PyMODINIT_FUNC PyInit__c14wrap(void)
{
    return PyInit__cffi_backend();
}

/* returns (exception type or None, buffer afterwards) */
PyObject *verif_fficallback(PyObject *ct, PyObject *obj, int encode, PyObject *initbuf)
{
    char buf[64];
    Py_ssize_t n;
    int r;
    PyObject *exc = Py_None;
    PyObject *t = NULL, *v = NULL, *tb = NULL;

    if (!CTypeDescr_Check(ct) || !PyBytes_Check(initbuf)) {
        PyErr_SetString(PyExc_SystemError, "verif_fficallback: bad arguments");
        return NULL;
    }
    n = PyBytes_GET_SIZE(initbuf);
    if (n > (Py_ssize_t)sizeof(buf) || n < 8) {
        PyErr_SetString(PyExc_SystemError, "verif_fficallback: bad buffer size");
        return NULL;
    }
    memcpy(buf, PyBytes_AS_STRING(initbuf), n);
    r = convert_from_object_fficallback(buf, (CTypeDescrObject *)ct, obj, encode);
    if (r < 0) {
        PyErr_Fetch(&t, &v, &tb);
        exc = t ? t : Py_None;
    }
    else if (PyErr_Occurred()) {
        PyErr_Clear();
        PyErr_SetString(PyExc_SystemError, "verif_fficallback: success with an exception set");
        return NULL;
    }
    {
        PyObject *res = Py_BuildValue("(Oy#)", exc, buf, n);
        Py_XDECREF(t);
        Py_XDECREF(v);
        Py_XDECREF(tb);
        return res;
    }
}
