/* C05: the C compiler's own double <-> float conversions on bit patterns
   (the "value C obtains" of the property statement).  Compiled by
   harness/corr_C05.py with the same gcc that builds the backend. */
#include <stdint.h>
#include <string.h>

uint32_t c05_narrow(uint64_t bits)
{
    double d;
    volatile float f;
    float g;
    uint32_t r;
    memcpy(&d, &bits, sizeof d);
    f = (float)d;
    g = f;
    memcpy(&r, &g, sizeof r);
    return r;
}

uint64_t c05_widen(uint32_t bits)
{
    float f;
    volatile double d;
    double g;
    uint64_t r;
    memcpy(&f, &bits, sizeof f);
    d = (double)f;
    g = d;
    memcpy(&r, &g, sizeof r);
    return r;
}

int c05_sizeof_long_double(void) { return (int)sizeof(long double); }
int c05_sizeof_float(void) { return (int)sizeof(float); }
int c05_sizeof_double(void) { return (int)sizeof(double); }
