/* Compiles /repo/src/c/malloc_closure.h unmodified (found through -I), the way
   _cffi_backend.c includes it (after <Python.h>, which supplies Py_ssize_t,
   <stdio.h>, <string.h>), and exposes its static functions and its static
   free list to the harness through ctypes.  This is a private copy of the
   allocator: it shares nothing with the one inside _cffi_backend. */
#define PY_SSIZE_T_CLEAN
#include <Python.h>
#include <stdint.h>
#include <stddef.h>
#include "malloc_closure.h"

void *verif_closure_alloc(void)
{
    return (void *)cffi_closure_alloc();
}

void verif_closure_free(void *p)
{
    cffi_closure_free((ffi_closure *)p);
}

/* length of the free list (bounded, so that a cyclic list cannot hang us) */
long verif_free_list_len(long bound)
{
    long n = 0;
    union mmapped_block *it = free_list;
    while (it != NULL && n < bound) {
        ++n;
        it = it->next;
    }
    return n;
}

/* copy the first `n` entries of the free list (head first); returns how many */
long verif_free_list_dump(void **out, long n)
{
    long i = 0;
    union mmapped_block *it = free_list;
    while (it != NULL && i < n) {
        out[i++] = (void *)it;
        it = it->next;
    }
    return i;
}

long verif_block_size(void)
{
    return (long)sizeof(union mmapped_block);
}

long verif_num_pages(void)
{
    return (long)allocate_num_pages;
}

long verif_pagesize(void)
{
    return (long)_pagesize;
}
