/* C30: compiles /repo/src/c/parse_c_type.c unmodified (found through -I) and
   exposes its static tokenizer functions to the harness through ctypes.
   Token kinds are reported by NAME CODE (a switch over the enum constants),
   so that a renumbering of enum token_e does not matter. */
#include <stdint.h>
#include <stddef.h>
#include "parse_c_type.c"

static const char *get_common_type(const char *search, size_t search_len)
{
    return NULL;
}

/* kind codes of the harness: 0..255 the punctuation byte (unsigned),
   1000+ the named kinds, in the order of KIND_NAMES in corr_C30.py */
static int kind_code(int kind, const char *p)
{
    switch (kind) {
    case TOK_START:      return 1000;
    case TOK_END:        return 1001;
    case TOK_ERROR:      return 1002;
    case TOK_IDENTIFIER: return 1003;
    case TOK_INTEGER:    return 1004;
    case TOK_DOTDOTDOT:  return 1005;
    case TOK__BOOL:      return 1006;
    case TOK_CHAR:       return 1007;
    case TOK__COMPLEX:   return 1008;
    case TOK_CONST:      return 1009;
    case TOK_DOUBLE:     return 1010;
    case TOK_ENUM:       return 1011;
    case TOK_FLOAT:      return 1012;
    case TOK_INT:        return 1013;
    case TOK_LONG:       return 1014;
    case TOK_SHORT:      return 1015;
    case TOK_SIGNED:     return 1016;
    case TOK_STRUCT:     return 1017;
    case TOK_UNION:      return 1018;
    case TOK_UNSIGNED:   return 1019;
    case TOK_VOID:       return 1020;
    case TOK_VOLATILE:   return 1021;
    case TOK_CDECL:      return 1022;
    case TOK_STDCALL:    return 1023;
    default:
        /* `tok->kind = *p` with a (signed) char: report the byte */
        if (kind == (int)*p)
            return (int)(unsigned char)*p;
        return -1;
    }
}

/* Runs next_token() from the start of `input` until TOK_END (or `max` tokens).
   For every token: kind code, offset, size, and -- computed at that token --
   get_following_char() and number_of_commas().  Returns the token count,
   or -1 when the END token was not reached within `max`. */
int c30_tokenize(const char *input, int max, int *kinds, long *offs, long *sizes,
                 int *following, int *commas)
{
    token_t tok;
    struct _cffi_parse_info_s info;
    int n = 0;
    memset(&info, 0, sizeof(info));
    tok.info = &info;
    tok.kind = TOK_START;
    tok.input = input;
    tok.p = input;
    tok.size = 0;
    tok.output = NULL;
    tok.output_index = 0;
    while (n < max) {
        next_token(&tok);
        kinds[n] = kind_code(tok.kind, tok.p);
        offs[n] = (long)(tok.p - tok.input);
        sizes[n] = (long)tok.size;
        following[n] = (int)(unsigned char)get_following_char(&tok);
        commas[n] = number_of_commas(&tok);
        n++;
        if (tok.kind == TOK_END)
            return n;
    }
    return -1;
}

/* search_standard_typename on exactly `size` bytes (no terminator needed). */
int c30_search_standard_typename(const char *p, size_t size)
{
    return search_standard_typename(p, size);
}

/* The whole parser on a context without any declared name; the opcode buffer
   (`output_size` entries) is supplied by the caller, who places it next to a
   PROT_NONE page. */
int c30_parse(const char *input, void *output, int output_size,
              long *error_location, const char **error_message)
{
    static struct _cffi_type_context_s ctx;
    struct _cffi_parse_info_s info;
    int res;
    memset(&ctx, 0, sizeof(ctx));
    memset(&info, 0, sizeof(info));
    info.ctx = &ctx;
    info.output = (_cffi_opcode_t *)output;
    info.output_size = output_size;
    info.error_location = 0;
    info.error_message = NULL;
    res = parse_c_type(&info, input);
    *error_location = (long)info.error_location;
    *error_message = info.error_message;
    return res;
}
