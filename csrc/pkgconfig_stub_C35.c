/* Stub `pkg-config` of the C35 check: `pkg-config --print-errors FLAG LIBNAME`
   replays $C35_SPEC/<hex of LIBNAME>.<FLAG>.{out,err,status}. */
#include <stdio.h>
#include <stdlib.h>
#include <string.h>

static int copy(const char *path, FILE *to)
{
    FILE *f = fopen(path, "rb");
    char buf[4096];
    size_t n;
    if (!f)
        return -1;
    while ((n = fread(buf, 1, sizeof buf, f)) > 0)
        fwrite(buf, 1, n, to);
    fclose(f);
    fflush(to);
    return 0;
}

int main(int argc, char **argv)
{
    const char *spec = getenv("C35_SPEC");
    char base[8192], path[8300];
    size_t n;
    unsigned char *p;
    FILE *f;
    int status = 96;
    if (argc != 4 || !spec || strcmp(argv[1], "--print-errors") != 0) {
        fprintf(stderr, "stub pkg-config: unexpected invocation\n");
        return 98;
    }
    n = (size_t)snprintf(base, sizeof base, "%s/", spec);
    for (p = (unsigned char *)argv[3]; *p && n + 3 < sizeof base; p++)
        n += (size_t)snprintf(base + n, sizeof base - n, "%02x", *p);
    snprintf(base + n, sizeof base - n, ".%s", argv[2]);
    snprintf(path, sizeof path, "%s.out", base);
    f = fopen(path, "rb");
    if (!f) {
        fprintf(stderr, "stub pkg-config: unknown package %s %s\n", argv[3], argv[2]);
        return 97;
    }
    fclose(f);
    snprintf(path, sizeof path, "%s.err", base);
    copy(path, stderr);
    snprintf(path, sizeof path, "%s.out", base);
    copy(path, stdout);
    snprintf(path, sizeof path, "%s.status", base);
    f = fopen(path, "r");
    if (f) {
        if (fscanf(f, "%d", &status) != 1)
            status = 96;
        fclose(f);
    }
    return status;
}
