/* C28: driver program for real CFFI-embedded libraries (harness/corr_C28.py).
 *
 *   c28_driver LOGFILE SCENARIOFILE LIB0.so [LIB1.so [LIB2.so]]
 *
 * Library i exports   int f<i>(int)   (extern "Python") and   int (*c28_hook<i>)(int),
 * a function pointer its Python code calls:
 *     hook(1) first statement of the init code          -> event  initbegin
 *     hook(2) after @ffi.def_extern(): scripted nested calls; returns 1 if the init code must raise
 *     hook(4) last statement of the init code           -> event  initend
 *     hook(5) just before the scripted raise            -> event  initfail
 *     hook(3) first statement of the body of f<i>       -> event  body
 * Every event is appended to LOGFILE as one line "<kind> <thread> <lib> <value>" while holding
 * the log mutex, so the file is a total order of the instrumented points.
 * Py_InitializeEx is interposed (this executable is linked with -rdynamic) -> event pyinit.
 *
 * Scenario file (one directive per line):
 *   T n                 number of worker threads (<= 8)
 *   R r                 the first r calls of every thread are preceded by a barrier of all threads
 *   C t l l l ...       outer calls of thread t, in order (library indexes)
 *   I l fail l l ...    init code of library l: nested calls made from hook(2), then fail flag
 *   G t l               thread t waits, before its first call, until library l's init code reached hook(2);
 *                       that hook(2) then waits until t announced its call, and (bounded, W ms) for a
 *                       body event of another thread, before it goes on
 *   X l                 hook(2) of library l first meets the other X-library's hook(2) at a 2-party barrier
 *   W ms                bounded wait used by G (default 30)
 *   M ms                overall timeout: the main thread gives up and exits 3 (default 20000)
 */
#define _GNU_SOURCE
#include <stdio.h>
#include <stdlib.h>
#include <string.h>
#include <errno.h>
#include <fcntl.h>
#include <unistd.h>
#include <dlfcn.h>
#include <time.h>
#include <pthread.h>
#include <semaphore.h>

#define MAXT 8
#define MAXL 3
#define MAXC 16

static int log_fd = -1;
static pthread_mutex_t log_mu = PTHREAD_MUTEX_INITIALIZER;
static __thread int my_tid = 90;          /* 90 = a thread the driver did not create */

static void log_event(const char *kind, int lib, long val)
{
    char buf[96];
    int n;
    pthread_mutex_lock(&log_mu);
    n = snprintf(buf, sizeof buf, "%s %d %d %ld\n", kind, my_tid, lib, val);
    if (write(log_fd, buf, n) != n) { perror("log"); _exit(4); }
    pthread_mutex_unlock(&log_mu);
}

/* ---- interposed: the libraries' call of Py_InitializeEx resolves to this definition ---- */
void Py_InitializeEx(int initsigs)
{
    static void (*real)(int);
    if (!real) real = (void (*)(int))dlsym(RTLD_NEXT, "Py_InitializeEx");
    if (!real) { fprintf(stderr, "c28_driver: no real Py_InitializeEx\n"); _exit(4); }
    log_event("pyinit", -1, 0);
    real(initsigs);
}

/* ---- scenario ---- */
static int nthreads = 1, nlibs = 0, rounds = 1, wait_ms = 30, timeout_ms = 20000;
static int ncalls[MAXT], calls[MAXT][MAXC];
static int init_fail[MAXL], init_nnested[MAXL], init_nested[MAXL][MAXC];
static int gate_lib[MAXT];                 /* -1 or the library thread t is gated on */
static int cross[MAXL];
static int (*fn[MAXL])(int);
static int (**hookp[MAXL])(int);

static pthread_barrier_t start_barrier, cross_barrier;
static sem_t init_reached[MAXL][MAXT];     /* posted once per gated thread by hook(2) of the library */
static sem_t announced[MAXL];              /* posted by each gated thread right before its call */
static sem_t body_seen[MAXL];              /* posted by hook(3) when the caller is not the initialiser */
static volatile int init_tid[MAXL];
static sem_t all_done;

static void do_call(int lib, int arg)
{
    int r;
    log_event("call", lib, arg);
    r = fn[lib](arg);
    log_event("ret", lib, r);
}

static void timed_wait(sem_t *s, int ms)
{
    struct timespec ts;
    clock_gettime(CLOCK_REALTIME, &ts);
    ts.tv_nsec += (long)ms * 1000000L;
    ts.tv_sec += ts.tv_nsec / 1000000000L;
    ts.tv_nsec %= 1000000000L;
    while (sem_timedwait(s, &ts) != 0 && errno == EINTR)
        ;
}

static int generic_hook(int lib, int code)
{
    int i, t, ngated = 0;
    switch (code) {
    case 1:
        init_tid[lib] = my_tid;
        log_event("initbegin", lib, 0);
        return 0;
    case 2:
        if (cross[lib])
            pthread_barrier_wait(&cross_barrier);
        for (t = 0; t < nthreads; t++)
            if (gate_lib[t] == lib) { sem_post(&init_reached[lib][t]); ngated++; }
        for (i = 0; i < init_nnested[lib]; i++)
            do_call(init_nested[lib][i], 1000 + 10 * lib + i);
        for (i = 0; i < ngated; i++)
            sem_wait(&announced[lib]);
        if (ngated)
            timed_wait(&body_seen[lib], wait_ms);
        return init_fail[lib];
    case 3:
        log_event("body", lib, 0);
        if (my_tid != init_tid[lib])
            sem_post(&body_seen[lib]);
        return 0;
    case 4:
        log_event("initend", lib, 0);
        return 0;
    case 5:
        log_event("initfail", lib, 0);
        return 0;
    }
    return 0;
}
static int hook0(int c) { return generic_hook(0, c); }
static int hook1(int c) { return generic_hook(1, c); }
static int hook2(int c) { return generic_hook(2, c); }
static int (*hooks[MAXL])(int) = { hook0, hook1, hook2 };

static void *worker(void *arg)
{
    int t = (int)(long)arg, k;
    my_tid = t;
    for (k = 0; k < ncalls[t] || k < rounds; k++) {
        if (k < rounds)
            pthread_barrier_wait(&start_barrier);
        if (k >= ncalls[t])
            continue;
        if (k == 0 && gate_lib[t] >= 0) {
            int l = gate_lib[t];
            sem_wait(&init_reached[l][t]);
            log_event("call", calls[t][0], 100 * t);
            sem_post(&announced[l]);
            {
                int r = fn[calls[t][0]](100 * t);
                log_event("ret", calls[t][0], r);
            }
            continue;
        }
        do_call(calls[t][k], 100 * t + k);
    }
    sem_post(&all_done);
    return NULL;
}

static void die(const char *msg) { fprintf(stderr, "c28_driver: %s\n", msg); _exit(4); }

int main(int argc, char **argv)
{
    FILE *sc;
    char line[512];
    int i, t, l;
    pthread_t th[MAXT];
    struct timespec ts;

    if (argc < 4) die("usage: c28_driver LOG SCENARIO LIB...");
    log_fd = open(argv[1], O_WRONLY | O_CREAT | O_APPEND, 0644);
    if (log_fd < 0) die("cannot open log");
    for (t = 0; t < MAXT; t++) gate_lib[t] = -1;
    nlibs = argc - 3;
    if (nlibs > MAXL) die("too many libraries");

    sc = fopen(argv[2], "r");
    if (!sc) die("cannot open scenario");
    while (fgets(line, sizeof line, sc)) {
        char *p = line + 1, *end;
        long v[MAXC + 2];
        int n = 0;
        while (n < MAXC + 2) {
            v[n] = strtol(p, &end, 10);
            if (end == p) break;
            p = end; n++;
        }
        switch (line[0]) {
        case 'T': nthreads = (int)v[0]; break;
        case 'R': rounds = (int)v[0]; break;
        case 'W': wait_ms = (int)v[0]; break;
        case 'M': timeout_ms = (int)v[0]; break;
        case 'C': t = (int)v[0]; ncalls[t] = n - 1;
                  for (i = 1; i < n; i++) calls[t][i - 1] = (int)v[i];
                  break;
        case 'I': l = (int)v[0]; init_fail[l] = (int)v[1]; init_nnested[l] = n - 2;
                  for (i = 2; i < n; i++) init_nested[l][i - 2] = (int)v[i];
                  break;
        case 'G': gate_lib[(int)v[0]] = (int)v[1]; break;
        case 'X': cross[(int)v[0]] = 1; break;
        case '#': case '\n': break;
        default: die("bad scenario line");
        }
    }
    fclose(sc);
    if (nthreads < 1 || nthreads > MAXT) die("bad thread count");

    for (l = 0; l < nlibs; l++) {
        char name[32];
        void *h = dlopen(argv[3 + l], RTLD_NOW | RTLD_GLOBAL);
        if (!h) { fprintf(stderr, "dlopen: %s\n", dlerror()); _exit(4); }
        snprintf(name, sizeof name, "f%d", l);
        fn[l] = (int (*)(int))dlsym(h, name);
        snprintf(name, sizeof name, "c28_hook%d", l);
        hookp[l] = (int (**)(int))dlsym(h, name);
        if (!fn[l] || !hookp[l]) die("symbols missing in library");
        *hookp[l] = hooks[l];
        sem_init(&announced[l], 0, 0);
        sem_init(&body_seen[l], 0, 0);
        init_tid[l] = -1;
        for (t = 0; t < MAXT; t++) sem_init(&init_reached[l][t], 0, 0);
    }
    pthread_barrier_init(&start_barrier, NULL, nthreads);
    pthread_barrier_init(&cross_barrier, NULL, 2);
    sem_init(&all_done, 0, 0);

    for (t = 0; t < nthreads; t++)
        if (pthread_create(&th[t], NULL, worker, (void *)(long)t) != 0) die("pthread_create");

    clock_gettime(CLOCK_REALTIME, &ts);
    ts.tv_sec += timeout_ms / 1000;
    ts.tv_nsec += (long)(timeout_ms % 1000) * 1000000L;
    ts.tv_sec += ts.tv_nsec / 1000000000L;
    ts.tv_nsec %= 1000000000L;
    for (t = 0; t < nthreads; t++) {
        int rc;
        while ((rc = sem_timedwait(&all_done, &ts)) != 0 && errno == EINTR)
            ;
        if (rc != 0) {
            my_tid = 99;
            log_event("timeout", -1, 0);
            _exit(3);
        }
    }
    my_tid = 99;
    log_event("end", -1, 0);
    _exit(0);
}
