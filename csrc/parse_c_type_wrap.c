/* Compiles /repo/src/c/parse_c_type.c unmodified (found through -I) and
   exposes its static functions to the harness through ctypes. */
#include <stdint.h>
#include <stddef.h>
#include "parse_c_type.c"

static const char *get_common_type(const char *search, size_t search_len)
{
    return NULL;
}

int verif_search_sorted(const char *const *names, int n,
                        const char *search, size_t search_len)
{
    return search_sorted(names, sizeof(const char *), n, search, search_len);
}

int verif_search_standard_typename(const char *p, size_t size)
{
    return search_standard_typename(p, size);
}

int verif_parse_c_type(struct _cffi_parse_info_s *info, const char *input)
{
    return parse_c_type(info, input);
}
